# Per-property configuration of ./check: which Coq file states the theorems, which
# correspondence streams tie the model to /repo, and the trusted base.

COMMON_TRUSTED = [
    "Coq 8.16.1 kernel (coqc, full .vo build via coq_makefile); vm_compute is used (Cases/*.v evaluation of the model on the harness's cases, finite sweeps, witness proofs); native_compute is not used",
    "no Axiom/Parameter/Conjecture/Admitted/admit, no top-level Variable/Hypothesis, no guard/positivity/universe switches: grepped on every run by ./check (forbidden_scan)",
    "the Go correspondence harness /verif/harness (generators, canonical projection, monitors, Coq literal printer) and the verif-tagged accessor files in /repo listed in MANIFEST.hooks",
    "no extraction: the model is evaluated inside coqc by vm_compute on the very cases the implementation ran",
]

HOOK_COMMITS = ["617529b", "89c6acf", "24306f8", "b70da77", "408e073"]

ALL_IDS = ["C%02d" % i for i in range(1, 21)]


CRON_TRUSTED = [
    "oracle: a single cron expression evaluated in its effective time zone (github.com/furiko-io/cronexpr + Go time/tzdata) is represented by the strictly increasing list of Unix seconds it matches inside the run horizon; the harness computes that list with its own parser-option logic and its own time.Location (structured choice), independent of pkg/execution/util/cron/parser.go and pkg/core/tzutils/parse.go; calendar arithmetic itself is not proved",
    "container/heap (Go standard library: up, down, Init, Push, Pop, Fix, Remove) is transcribed into Cron/ArrayHeap.v together with pkg/utils/heap (Less/Swap/Push/Pop, the name index, Heap.New/Push/Pop/Peek/Search/Update/Delete); the heap stream compares the slice, the index and every result slot by slot with the real heap after every op; the refinement to the key->priority map of Cron/Sched.v is a theorem (Props/C01.v c01_array_heap_*); the cron stream additionally compares the heap content (key, priority) after every op through the VerifDump hook. Hypothesis of the refinement: Push is only called for absent names and New for distinct names (cronschedule.Schedule does exactly that)",
    "the informer is the harness's synchronous SharedIndexInformer: cache updated at the op, handler delivery is a separate op; client-go's real informer is not exercised",
]

JOB_TRUSTED = [
    "Pods are abstracted to (name, index hash, retry, creation, controller-owned, phase, OOM flag, deletionTimestamp, status.startTime, container start/finish time); reason/message strings and container states beyond these are not modelled (compared only as controller-set reasons PendingTimeout/ForceDeleted/JobDeleted)",
    "times are whole seconds in the job world (metav1.Time precision)",
    "index hashes (parallel.HashIndex) are inputs of the job model; their generation and distinctness is C14",
]

JOBSYNC_RULE = "jobsync: one Job (all parallelism shapes, strategies, maxAttempts 1-3, retry delays 0/5/60, timeouts at both levels incl. 0/unset/negative) driven op by op: start, real Reconciler.SyncOne, kubelet steps (schedule, run, succeed, fail, OOM, terminate, vanish), clock on the lattice around every deadline, user kill/delete, foreign Pods on task names, Job/Pod informer caches that lag by event prefixes, one-shot faults on every API verb; scripted corpus cases first; every history is driven to quiescence; non-trivial = the controller issued more than 2 API actions; distinct by (seed, case, #actions). jobpure: see C10"
JOBSYNC_TRUSTED = [
    "the API-server simulation harness/sim_api.go (name uniqueness, resourceVersion conflicts, status sub-resource split, finalizer-gated deletion, graceful Pod deletion, second-precision timestamps) and its mirror in Job/Sync.v (api_update_job, api_update_status, api_delete_pod, api_delete_job)",
    "deletes of one sweep run in goroutines: their API order is canonicalised to ascending Pod name on both sides; a delete fault fails every delete of the pass",
]

QUEUE_RULE = "queue: one JobConfig (maxConcurrency unset/1/2/3, changed on the fly), owned Jobs with every start policy (none, empty, Allow, Forbid, Enqueue), startAfter on the lattice around the clock, independent Jobs; ops: create, finish (job controller writes a terminal phase), delete, clock, cache advance, store-listener and wake-up deliveries in arbitrary lag, faults on StartJob/RejectJob, restarts (Store.Recover), real PerConfigReconciler/IndependentReconciler passes; driven to quiescence; non-trivial = at least one start/reject; distinct by (seed, case, #actions)"
QUEUE_TRUSTED = [
    "the job controller is an environment op in this world (a Job becomes terminal); terminal phases and startTime are permanent (C11)",
    "a pass is atomic with respect to listener deliveries (no interleaving between the counter read and CheckAndAdd)",
    "the API-server simulation (resourceVersion conflicts on StartJob/RejectJob) of harness/sim_api.go",
]

PROPS = {
    "C14": {
        "props_file": "Props/C14.v",
        "theorems": ["c14_count", "c14_keys", "c14_odometer_is_product", "c14_matrix_expansion", "c14_matrix_product_exact", "c14_matrix_product_count", "c14_matrix_product_distinct", "c14_names_distinct", "c14_vars_identify_index", "c14_admission_count_keys", "c14_admission_matrix"],
        "families": [{"name": "parallel", "n_quick": 2000, "n_thorough": 80000}],
        "rule": "parallel: generated parallelism specs (withCount incl. 0, negative, 58/69/70/120; key lists with duplicates, empties, prefixes/permutations; matrices with 1-3 keys x 0-3 values, duplicates, invalid keys; several or no types at once) through ValidateParallelismSpec, GenerateIndexes (panics caught), HashIndex, GenerateTaskName, MakeVariablesFromTask and NewPod for every index in sequence on the same Job object; non-trivial = more than one index; distinct by spec",
        "trusted": ["oracle: parallel.HashIndex (hashstructure FNV -> decimal -> base32 -> first 6); hashes of the run's indexes are compared for collisions by the monitor", "the withMatrix key regexp is an oracle bit per case"],
        "assumptions": ["the refinement odometer = product needs every value list non-empty (admission guarantees it after fix 74d66b5; with an empty list the Go loop panics, modelled as None)"],
        "level_text": "Theorems: withCount/withKeys expansion exact and in order; the cartesian product is complete, of the right size and duplicate-free for duplicate-free lists; task names are injective in (hash, retry); the index variables identify the index; accepted specs have no duplicate or empty lists. The index-vector-with-carry loop of GenerateMatrixCombinations is proved to enumerate exactly the lexicographic product (mixed-radix counter refinement), and its faithful model is tied to the code by the parallel stream; hash collisions are judged by the monitor (open finding F5c).",
        "level_note": "Trusted: Coq kernel + vm_compute; HashIndex as oracle.",
    },
    "C18": {
        "props_file": "Props/C18.v",
        "theorems": ["c18_bool", "c18_string", "c18_select", "c18_multi", "c18_date", "c18_wrong_type_rejected", "c18_default_agreement", "c18_one_value_per_option", "c18_rejected_iff_some_option_rejected", "c18_admission_precedence", "c18_option_own_value", "c18_substitution_deterministic", "c18_template_semantics", "c18_pod_template_semantics", "c18_plain_text_untouched"],
        "families": [{"name": "options", "n_quick": 3000, "n_thorough": 60000}],
        "rule": "options: three kinds of case. (1) one option of any of the five types (incl. unknown bool formats, empty/duplicate allowed values, all delimiters) with a value that is missing, null, wrong-typed, empty, whitespace, custom or containing ${..}, through EvaluateOption and EvaluateOptionDefault. (2) SubstituteVariableMaps on tokenised templates (known/unknown/reserved/malformed variables, literals) with 1-3 maps whose values may mention other variables of the same map; each call and NewPod repeated 20 times. (3) a JobConfig with 0-3 options + template args, a Job admitted by configName with optionValues JSON and explicit substitutions, or created by NewJobFromJobConfig as the cron controller does, through Mutator.MutateCreateJob and then podtaskexecutor.NewPod: stored spec.substitutions and rendered args compared with the model. non-trivial = evaluation succeeded / template has a variable / admitted with >=1 option; distinct by inputs",
        "trusted": ["oracle: goment date formatting (FormatAsMoment) and time.Parse(RFC3339) - the formatted text of each date value of the run is shipped with the case", "strings.TrimSpace is modelled for ASCII white space only (the streams generate only that)", "the task-context variable map is taken from MakeVariablesFromTask (its correspondence is C14's)", "JSON/YAML decoding of optionValues (jsonyaml.UnmarshalString) is exercised, not modelled: the model receives the decoded values"],
        "assumptions": ["c18_template_semantics is stated for tokenised templates (literal pieces without '$', ${name} tokens whose names contain neither '$' nor '}') and substitution values without '$'; values that themselves contain variable syntax are re-scanned by the later ReplaceAll calls - for them the theorems give determinism only, the stream ties the model to the code"],
        "level_text": "Theorems over all inputs: per-type constraint satisfaction of every accepted value (allowed values, required => non-empty, trimming, bool formats, multi join, date via oracle), rejection of wrong-typed values, agreement of 'no value' with EvaluateOptionDefault, one value per declared option or rejection, the priority order explicit > option > jobconfig context of the stored map (sort_kv is a finite map: later wins), independence of substitution from map enumeration order (sorted lists with equal lookups are equal), and the template semantics: every ${name} takes the value of the first (highest-priority) map that defines it, unknown names with a reserved prefix become empty, everything else is untouched (proved about the ReplaceAll / regexp scanning functions themselves). Model tied to EvaluateOption/Default, SubstituteVariableMaps, MutateCreateJob and NewPod by the options stream.",
        "level_note": "Genuine defect F7 (map-order dependent rendering) fixed in 3075a93. Trusted: Coq kernel + vm_compute; date formatting oracle.",
    },
    "C15": {
        "props_file": "Props/C15.v",
        "theorems": ["c15_exact_at_quiescence", "c15_state_cases", "c15_monotone", "c15_dominates"],
        "families": [{"name": "jcstatus", "n_quick": 400, "n_thorough": 12000}],
        "rule": "jcstatus: histories of 10-60 ops on one JobConfig (no schedule / enabled / disabled, optional pre-existing lastScheduled/lastExecuted): Job create (owned or not, schedule-time annotation valid/absent/garbage), start, phase change (7 live and 5 terminal phases), delete, schedule edit, single deliveries of Job events to the Job cache and of JobConfig events to the JobConfig cache in any interleaving, injected UpdateStatus failures, resourceVersion conflicts on stale caches, rate-limited re-adds fired at arbitrary points, and work items processed by the real reconciler.Controller.work -> Reconciler.SyncOne; driven to quiescence at random points and at the end. Observed after every op: status in the API (references sorted by name), resourceVersion, queue ready/delayed, outcome. non-trivial = more than one status write; distinct by op list",
        "trusted": ["the informer's list order is fixed to key order by the harness (client-go returns Go map order; the controller copies it into status.activeJobs, so the order is not part of the comparison)", "the event recorder is a fake; events are not compared"],
        "assumptions": ["'dominates' is stated for Jobs seen by a pass that completed without error; a Job created and deleted between two passes is never seen by the controller (inherent to a cache-driven controller, stated in the theorem)", "one JobConfig; JobConfig deletion is not generated"],
        "level_text": "Theorems over all histories of the world model (API truth, two lagging caches, work queue with rate-limited retries, write faults and conflicts): at every settled state the API status lists exactly the owned active / queued Jobs with matching counts and derived state, and its high-water marks dominate all present Jobs; lastScheduled/lastExecuted never decrease; anything a completed pass saw stays dominated forever (also after deletion). Proof by an invariant (caches replay the API; pending JobConfig objects are older and no larger; 'not queued, nothing delayed, no pending JobConfig event => the cached status is a fixpoint'). The world model is tied to the real InformerWorker + Reconciler + reconciler.Controller by the jcstatus stream; an independent monitor restates the property on the implementation trace.",
        "level_note": "Trusted: Coq kernel + vm_compute; harness-driven informers/work queue (SimInformer, SimQueue) and the JobConfig status reactor (status sub-resource, resourceVersion conflict).",
    },
    "C19": {
        "props_file": "Props/C19.v",
        "theorems": ["c19_merge_fieldwise", "c19_fieldwise", "c19_decode_all_fields", "c19_decode_fails_iff", "c19_atomic_source", "c19_event_accepted_iff_all_parse", "c19_read_result", "c19_lkg", "c19_recovers"],
        "families": [{"name": "config", "n_quick": 3000, "n_thorough": 60000}],
        "rule": "config: sequences of 4-20 ops on the real ConfigManager [DefaultsLoader, ConfigMapLoader, SecretLoader]: ConfigMap / Secret events (own object or a foreign one) whose entries for the three kinds and an unrelated key are generated documents (YAML or JSON; every subset of the kind's fields; values right-typed incl. 0/false/empty string, null, wrong-typed numbers/strings/bools, fractions, empty and non-empty lists and maps; unknown fields) or malformed text (8 shapes) or invalid base64, and reads of Jobs()/JobConfigs()/Cron() through ContextConfigs. The model is given the generator's intention (parsed layer or 'malformed'), not the parser's result. non-trivial = more than one read; distinct by op list",
        "trusted": ["YAML/JSON parsing (k8s yaml.NewYAMLOrJSONDecoder) and base64 are exercised, not modelled: a document the generator meant as malformed but the parser accepts (or vice versa) shows up as a mismatch", "the model of mergo v0.3.12's map merge and of mapstructure's non-weak decode was written from their source and is tied by the stream"],
        "assumptions": ["events are delivered synchronously through the verif hook VerifHandleUpdate; the informer plumbing of the loaders (Start, WaitForCacheSync) is not exercised", "a map-valued entry for a scalar field is dropped by mergo when the lower layer holds a non-empty value (it neither overrides nor makes the kind undecodable); the field-wise theorem excludes map values and the monitor does not judge such reads - observation recorded in DESIGN.md"],
        "level_text": "Theorems for all states / op sequences: merge of a layer is key by key (null, zero, false, empty string and lists override; untouched keys keep the lower value), the effective value of each field is Secret else ConfigMap else default, decoding is all-or-nothing and field by field, a source's content is its latest fully parsed event, a read returns the full decode of the current layering or exactly the last successful read of that kind or an error, and recovers at once. Model tied to the real loaders and manager by the config stream with an independent field-wise / last-known-good monitor.",
        "level_note": "Trusted: Coq kernel + vm_compute; YAML/base64 parsers as exercised oracles; verif hooks for synchronous event delivery.",
    },
    "C17": {
        "props_file": "Props/C17.v",
        "theorems": ["c17_accepted_loadable", "c17_f18_witness", "c17_accepted_instantiable", "c17_accepted_parts", "c17_update_immutable", "c17_update_accepts_unchanged"],
        "families": [{"name": "validate", "n_quick": 2500, "n_thorough": 50000}],
        "rule": "validate: three kinds of case. (1) a JobConfig (names incl. 49/50 chars; all concurrency policies and maxConcurrency values; schedule absent / without cron / disabled / singular expression / expressions list / both, from a pool of 12 parsable and 9 unparsable expressions incl. blank entries, H forms, quartz 6-7 fields; 10 time zones; 0-3 options of the five types, valid and invalid, duplicate/invalid names, foreign configs; templates with in- and out-of-range maxAttempts / retryDelay / pendingTimeout, parallelism of every shape and completion strategy, Pod templates valid/invalid with every restartPolicy) under a random cron dynamic configuration (format, hashNames, hashSeconds, hashFields, default time zone), mutated then validated as the webhooks do; then cronschedule.New + Bump, NewJobFromJobConfig; for accepted ones additionally a Job by configName with values for the required options through JobPatcher, ValidateJob/ValidateJobCreate and NewPod per index. (2) a Job through ValidateJob. (3) an (old, new) pair differing in random subsets of the ten immutable fields (variants with known Semantic.DeepEqual classes, nil vs empty map), the kill timestamp relative to the clock, started or not, plus mutable fields. non-trivial = accepted; distinct by term",
        "trusted": ["oracles, shipped per case as tables computed with the same functions the code calls: cron.Parser.Parse (furiko-io/cronexpr) for hash ids \"\" and the JobConfig key, tzutils.ParseTimezone, validation.ValidatePodTemplateSpec (Kubernetes core validation) per restartPolicy, the withMatrix key regexp", "unknown option types are not generated"],
        "assumptions": ["c17_accepted_loadable assumes a named JobConfig (the hash id is its namespace/name; with generateName the name is not known at admission) and that the operator's default time zone parses. Until the repair of finding F18 (commit a3dbc74 in /repo) it also assumed that whether an expression parses does not depend on the hash id - false of the real parser (c17_f18_witness; the stream now generates such expressions in its valid pool)"],
        "level_text": "Theorems for all specs and oracle verdicts: an accepted JobConfig loads in the scheduler under its own key and its option defaults render (so NewJobFromJobConfig cannot fail and one accepted object cannot abort cronschedule.New); acceptance decomposes into name length, template, concurrency, schedule and option rules; an accepted Job update changes none of the ten immutable fields, freezes the start policy once started and the kill timestamp once passed, and conversely an update changing none of them is accepted. The decision structure of Validator and of the loader is tied to the code by the validate stream; the end-to-end clause is judged by the monitor on the real consumers.",
        "level_note": "Trusted: Coq kernel + vm_compute; the oracles above.",
    },
    "C16": {
        "props_file": "Props/C16.v",
        "theorems": ["c16_job_create_idempotent", "c16_job_update_idempotent", "c16_jobconfig_create_idempotent", "c16_finalizer", "c16_job_defaults", "c16_defaulted_template_stays_valid", "c16_config_name", "c16_config_name_labels", "c16_substitution_precedence", "c16_last_updated_create", "c16_last_updated_update", "c16_no_schedule_no_stamp"],
        "families": [{"name": "mutate", "n_quick": 1200, "n_thorough": 30000}],
        "rule": "mutate: AdmissionRequests through the real jobmutatingwebhook / jobconfigmutatingwebhook Handle. Jobs (CREATE 80% / UPDATE): raw JSON as a client sends it (status and null creationTimestamp present or absent), every optional field present or absent (finalizers incl. the furiko one in any position, labels/annotations incl. forged uid label and schedule-time annotation, type, ttl, startPolicy nil / empty / policy only / startAfter only, template, creationTimestamp), configName of an existing / missing JobConfig, explicit owner references with right / stale uid and with / without label, optionValues (JSON of typed and wrong-typed values, unknown option names, garbage), explicit substitutions; 1-2 JobConfigs in the lister with options, template labels/annotations (also forged ones), every concurrency policy; dynamic config defaults set or default. JobConfigs (CREATE / UPDATE): bool options without config or format, templates, 5 schedule variants x 4 lastUpdated values (nil, past, now, future) for old and new. The returned patch is applied to the submitted raw object with evanphx/json-patch and decoded; observed = projection of the patched object. non-trivial = a non-empty patch; distinct by term",
        "trusted": ["patch faithfulness (patch applied to the raw submission = the mutator's typed result) and resubmission (second patch empty or a no-op) are decided by the stream's monitor with the API server's JSON-patch library, not by a theorem: the JSON diff of gomodules.xyz/jsonpatch is not modelled", "the option-spec hash annotation is compared by presence only (hashstructure oracle)", "jsonyaml decoding of optionValues is exercised; the model receives the decoded values and a 'does not decode' bit"],
        "assumptions": ["partial: 'the JSON patch applied to the submitted object yields exactly the defaulted object' is checked on every generated request (signatures C16/patch-unfaithful, C16/patch-does-not-apply, C16/not-idempotent), not proved", "c16_defaulted_template_stays_valid assumes the Pod validation verdict for restartPolicy Never is no worse than for the empty one (oracle monotonicity)"],
        "level_text": "Theorems over all Jobs/JobConfigs of the model: resubmitting the defaulted object changes nothing (Job create through configName expansion, owner lookup, option evaluation and substitution merge; Job update; JobConfig create), the finalizer and every listed default are present and submitter values kept, configName yields the JobConfig's template, owner reference, UID label (overriding forged ones), its concurrency policy unless one was given, configName cleared, submitter labels win over template labels, substitutions follow explicit > option > jobconfig context, lastUpdated is stamped exactly on schedule creation/change unless the submitted value lies in the future. The model is tied to the real webhooks by the mutate stream through the patch actually returned.",
        "level_note": "Partial on patch faithfulness (differential, with the API server's patch library). Trusted: Coq kernel + vm_compute.",
    },
    "C20": {
        "props_file": "Props/C20.v",
        "theorems": ["c20_cron_failed_item_requeued", "c20_cron_never_lost", "c20_cron_retry_converges", "c20_cron_retry_idempotent", "c20_status_failed_pass_requeued", "c20_status_retry_converges", "c20_status_exact_whatever_failed", "c20_queue_failed_start_changes_nothing", "c20_job_world_safe_whatever_fails", "c20_job_deletion_retry_converges"],
        "families": [{"name": "faultdiff", "n_quick": 300, "n_thorough": 8000}, {"name": "recon", "n_quick": 200, "n_thorough": 6000}, {"name": "jcstatus", "n_quick": 200, "n_thorough": 6000}, {"name": "queue", "n_quick": 150, "n_thorough": 4000}, {"name": "jobsync", "n_quick": 120, "n_thorough": 3000, "shard_cap": 40}],
        "rule": "faultdiff: one workload run twice on the real controllers - with a finite random pattern of injected server errors / conflicts and without - both driven to quiescence (everything delivered, every rate-limited re-add fired, queue drained), final API state compared: (a) cron reconciler + ExecutionControl under reconciler.Controller.work: fixed JobConfigs, 2-7 schedule requests with duplicates, failures on create; compared: the set of Jobs with identity fields; (b) jobconfig status controller: a Job lifecycle history (create/start/phase/delete/schedule edits), failed status writes and conflicts on stale caches; compared: active/queued references, counts, state, and the high-water marks when no Job was deleted; (c) admission queue: 2-6 Jobs of all policies created up front, failed start and refuse writes; compared: started / refused Jobs and the counter; (d) job controller: one Job (1-3 indexes, 1-3 attempts, both strategies) whose tasks follow a fixed succeed/fail plan, the kubelet advances every live Pod each round, the Job key is worked only when the informer handlers, a due timer, the 10-minute resync or a failed pass put it on the queue; failures on Pod create/delete, Job update, status update, Job delete for 25 rounds; compared at quiescence: phase, recorded tasks and their results (phase only when an early end makes per-task results timing-dependent), TTL clean-up. The faulty cron-reconciler run is also a model case. recon / jcstatus / queue / jobsync: the streams of C02 / C15 / C05 / C08-C13 (their histories include injected failures, conflicts, retries and restarts) tie the worlds the theorems speak about to the code; the job stream's monitor reports under C20 a Job that is refused (admission error) because of its own Pod left by an earlier failed pass",
        "trusted": ["as C02, C15, C05 for the three worlds"],
        "assumptions": ["partial: convergence is proved for the cron reconciler and the jobconfig status controller (a burst of n failures on one work item, then success) and 'a failed start changes nothing but the failure' for the admission queue; for the job controller (tasks created / killed / finalised under failures) there is no convergence theorem - its histories with create/delete/update failures are judged by the safety monitors of C08-C13 in their own checks", "Invalid (non-retryable) create errors become events and are not retried, by design: they are excluded from the differential runs", "timeouts after the write was applied (F8 hypothesis) are not generated", "the safety monitors of C02, C05, C06, C08-C13 run on the same fault-injecting streams in those properties' checks; they are not re-reported under C20"],
        "level_text": "Theorems: a failed cron work item is re-queued and leaves API and caches untouched; a queued key is never dropped except by error-free processing or a restart; after any n consecutive server errors the n+1-th attempt yields exactly the fault-free API (the Job exists once, queue empty); re-processing an existing schedule time changes nothing; a failed jobconfig status pass changes nothing and is re-queued, after n failed writes the fault-free status is written, and every settled state is exact whatever failed before; a failed start write in the admission queue only consumes the failure (counter rolled back). Differential runs on the real controllers compare faulty and fault-free final states.",
        "level_note": "Partial: no convergence theorem for the job controller world. Trusted: Coq kernel + vm_compute; harness fault injection (reactors on the fake clientsets).",
    },
    "C05": {
        "props_file": "Props/C05.v",
        "theorems": ["c05_start_respects_max", "c05_counter_dominates", "c05_counter_exact_when_delivered", "c05_pass_bound", "c05_no_double_increment", "c05_release_on_finish", "c05_release_on_delete", "c05_store_steps", "c05_rollback", "c05_recover"],
        "families": [{"name": "queue", "n_quick": 300, "n_thorough": 8000}],
        "rule": QUEUE_RULE,
        "trusted": QUEUE_TRUSTED,
        "assumptions": ["the independent reconciler is only invoked for Jobs without a JobConfig owner (the informer routes owned Jobs to the per-JobConfig queue): hypothesis run_ok of the history theorems", "exact accounting (c05_counter_exact_when_delivered) additionally assumes that Job names are unique (a create of an existing name fails) - hypothesis run_ok2", "a start write that is applied but reported as failed (timeout after apply) is not generated (F8 hypothesis, unconfirmed)"],
        "level_text": "Theorems over all histories (invariant Phi: active(API) <= counter + effect of the events the store has not seen, all pending effects <= 0; preserved by every op incl. failed and conflicting writes, rollback, restart): in every reachable world the counter is at least the number of owned active Jobs in the API, and whenever a pass starts a Forbid/Enqueue Job the owned active Jobs in the API just before number at most maxConcurrency-1. Per pass: every start of a Forbid/Enqueue Job is admitted at counter value a' with a'+1 <= maxConcurrency (snapshot = counter by CheckAndAdd); the store never counts the start twice, releases exactly once on finish/delete; rollback on a failed write; recount on restart. Model = whole PerConfigReconciler pass + Store + listeners, tied to the real code by the queue stream (lagging cache/listeners, faults, restarts); the bound against the API truth is judged by the monitor at every start.",
        "level_note": "Passes are atomic w.r.t. listener deliveries in the model (CAS failure branch not exercised).",
    },
    "C06": {
        "props_file": "Props/C06.v",
        "theorems": ["c06_reject_only_forbid_at_limit", "c06_enqueue_never_refused", "c06_at_limit", "c06_allow_starts_regardless", "c06_fifo_monotone", "c06_idle_pass_means_blocked"],
        "families": [{"name": "queue", "n_quick": 300, "n_thorough": 8000}],
        "rule": QUEUE_RULE,
        "trusted": QUEUE_TRUSTED,
        "assumptions": ["equal creation seconds among queued Jobs are not generated (sort.Slice is unstable; ties are unordered in the code)", "a refused Job whose AdmissionError phase has not been written yet is still listed as queued and may get a startTime when capacity frees; it never gets a task (C08 gate) - observation, not judged"],
        "level_text": "Decision theorems for all inputs (refusal only for Forbid at the limit, Enqueue never refused and skipped at the limit, Allow/nil always start), FIFO monotonicity inside a pass; 'no Job stays stuck' as a theorem over histories: over a fully delivered history an idle pass leaves only Enqueue Jobs blocked by the true number of active Jobs in the API or Jobs whose startAfter is in the future (exact counter accounting, QueueEqP); order of starts among Enqueue Jobs across passes and refusals judged by the monitor on histories of the real reconciler.",
        "level_note": "Trusted: as C05.",
    },
    "C07": {
        "props_file": "Props/C07.v",
        "theorems": ["c07_never_before", "c07_pass_never_before", "c07_independent_never_before", "c07_armed_when_waiting", "c07_independent_immediate", "c07_due_job_left_only_at_true_limit"],
        "families": [{"name": "queue", "n_quick": 300, "n_thorough": 8000}],
        "rule": QUEUE_RULE,
        "trusted": QUEUE_TRUSTED,
        "assumptions": ["'eventually' is 'at quiescence' (no real-time bound): judged by the monitor after driving the history to quiescence with the clock past every startAfter"],
        "level_text": "Theorems: a start decision implies clock >= startAfter for both reconcilers; a not-yet-due independent Job arms a re-sync; a due independent Job is started by the pass that sees it; over a fully delivered history an idle pass leaves a due Job queued only if it is an Enqueue Job at the true concurrency limit. Eventual start at quiescence is additionally judged by the monitor.",
        "level_note": "Trusted: as C05.",
    },
    "C08": {
        "props_file": "Props/C08.v",
        "theorems": ["c08_creates_are_requests", "c08_request_sound", "c08_no_request_for_live_or_succeeded", "c08_gate", "c08_gate_means", "c08_stop_when_complete", "c08_created_names_bounded"],
        "families": [{"name": "jobsync", "n_quick": 120, "n_thorough": 3000, "shard_cap": 40}, {"name": "jobpure", "n_quick": 800, "n_thorough": 40000}],
        "rule": JOBSYNC_RULE,
        "trusted": JOB_TRUSTED + JOBSYNC_TRUSTED,
        "assumptions": ["history-level clauses (at most one live task per index, retries 0,1,2,..., delay) follow from the per-pass theorems only when the pass's caches cover the API state; with lagging caches they fail - findings F4, F17 (open), judged by the monitor"],
        "level_text": "Per-pass theorems for every cached Job, Pod cache, API state, clock and fault set: every create is a request of ComputeMissingIndexesForCreation that is due; requests exist only for indexes without live/succeeded recorded task, with the next unused retry < maxAttempts and earliest = latest finish + delay; the creation gate. The whole reconcile pass is modelled (Job/Sync.v) and tied to the real Reconciler.SyncOne by the jobsync stream (API-server simulation, lagging caches, faults); history clauses are judged by an independent monitor.",
        "level_note": "Trusted: Coq kernel + vm_compute, the harness's API-server simulation. Open findings F4, F16, F17 (cache lag / name binding).",
    },
    "C09": {
        "props_file": "Props/C09.v",
        "theorems": ["c09_adopt_or_refuse", "c09_same_request_until_recorded", "c09_listed_forever", "c09_tombstone_is_last_known_state", "c09_lost_only_if_unobserved", "c09_not_lost_refuted", "c09_recorded_forever", "c09_never_listed_twice"],
        "families": [{"name": "jobsync", "n_quick": 120, "n_thorough": 3000, "shard_cap": 40}, {"name": "jobpure", "n_quick": 800, "n_thorough": 40000}],
        "rule": JOBSYNC_RULE,
        "trusted": JOB_TRUSTED + JOBSYNC_TRUSTED,
        "assumptions": [],
        "level_text": "Theorems: one create per request on the deterministic name; adoption only of objects this Job controls, admission error otherwise; the same request until the task is recorded; recorded tasks stay listed with their last known state; a task is recorded as lost only if its Pod is absent from the observed Pods - refuted against the API truth under Pod-cache lag (F4). Crash/fault points: injected failures of every API verb and lagging caches in the jobsync stream (a crash is a pass that stops after an API call; the controller keeps no other state).",
        "level_note": "Trusted: as C08. Open findings F4, F10, F16.",
    },
    "C12": {
        "props_file": "Props/C12.v",
        "theorems": ["c12_kill_guard", "c12_kill_not_early", "c12_should_kill_means", "c12_no_create_after_kill", "c12_kill_terminal", "c12_kill_sweep_complete", "c12_pending_sweep_complete", "c12_pending_armed", "c12_force_armed", "c12_pending_guard", "c12_pending_disabled", "c12_pending_effective_value", "c12_force_guard"],
        "families": [{"name": "jobsync", "n_quick": 120, "n_thorough": 3000, "shard_cap": 40}],
        "rule": JOBSYNC_RULE,
        "trusted": JOB_TRUSTED + JOBSYNC_TRUSTED,
        "assumptions": ["no re-sync is armed for a future kill timestamp: the kill is carried out by the next Pod/Job event or resync (observation, DESIGN.md C12)"],
        "level_text": "Per-pass guard theorems: kill sweep only after the kill timestamp (or a decided strategy) and only on unfinished, not-yet-deleting tasks; no create once a kill timestamp exists; Killed once all indexes are terminated; pending reaper only with a positive effective timeout, created+timeout <= now, not running/finished/deleting; force delete only with positive timeout, not forbidden, deletionTimestamp+timeout <= now. End-state clauses judged by the monitor at quiescence.",
        "level_note": "Trusted: as C08. Open findings F4, F10 (unrecorded task survives the kill).",
    },
    "C13": {
        "props_file": "Props/C13.v",
        "theorems": ["c13_finalizer_order", "c13_ttl_not_early", "c13_ttl_effective_value", "c13_ttl_armed", "c13_ttl_fires", "c13_job_removed_after_tasks", "c13_pod_cache_covers_api", "c13_deletion_completes"],
        "families": [{"name": "jobsync", "n_quick": 120, "n_thorough": 3000, "shard_cap": 40}],
        "rule": JOBSYNC_RULE,
        "trusted": JOB_TRUSTED + JOBSYNC_TRUSTED,
        "assumptions": ["the API server removes an object whose deletionTimestamp is set when its last finalizer is removed (part of the simulation)"],
        "level_text": "Theorems: the finalizer is removed only from a deleting Job and only when no task named in its status is in the Pod cache; the controller deletes a Job only when finished, not deleting, finish+TTL <= now (TTL = Job value else default); a finished Job with a stored TTL arms a re-sync. 'Job gone only after its tasks' is refuted under Pod-cache lag (F4c, reproduced).",
        "level_note": "Trusted: as C08. Open finding F4c.",
    },
    "C10": {
        "props_file": "Props/C10.v",
        "theorems": ["c10_success_sound", "c10_failed_sound", "c10_exclusive", "c10_decided_iff_complete", "c10_finished_no_live", "c10_succeeded_real", "c10_recorded_success_is_real"],
        "families": [{"name": "jobpure", "n_quick": 1500, "n_thorough": 60000}, {"name": "jobsync", "n_quick": 120, "n_thorough": 3000, "shard_cap": 40}],
        "rule": "jobpure: generated (parallelism shape none/count/keys/matrix, strategy, maxAttempts, kill/deletion/admission-error flags, per-index attempt histories with every outcome incl. OOM, pre-recorded kills, flapping Pods, lost Pods, stored refs lagging the Pods, unsorted refs) evaluated by the real GenerateTaskRefs/UpdateJobTaskRefs/UpdateJobStatusFromTaskRefs/ComputeMissingIndexesForCreation; non-trivial = at least one ref or Pod; distinct by (shape, #refs, #pods, phase). jobsync: histories of the real reconciler (see C08)",
        "trusted": JOB_TRUSTED,
        "assumptions": ["refs whose index hash is not an index of the spec are outside c10_finished_no_live"],
        "level_text": "Theorems for all ref lists: Success/Failed soundness w.r.t. the strategy read back index by index, exclusivity, decided<->complete, finished => no recorded task without finish time, Pod->result mapping; tied to parallel.GetParallelStatus/job.GetCondition/GetPhase/GetTaskRef by the jobpure stream and to the reconciler by the jobsync stream; history-level clauses (does reach the result; no Pod alive at the finishing write) are judged by the jobsync monitor against the simulated kubelet's ground truth.",
        "level_note": "Trusted: Coq kernel + vm_compute; index hashes are an oracle here (C14); the harness.",
    },
    "C11": {
        "props_file": "Props/C11.v",
        "theorems": ["c11_state_and_phase", "c11_phase_terminal_iff_finished", "c11_counters", "c11_tasks_never_dropped", "c11_times_never_cleared", "c11_times_kept_when_pod_gone", "c11_start_time_forever", "c11_tasks_never_dropped_forever", "c11_times_never_cleared_forever", "c11_task_count_never_decreases"],
        "families": [{"name": "jobpure", "n_quick": 1500, "n_thorough": 60000}, {"name": "jobsync", "n_quick": 120, "n_thorough": 3000, "shard_cap": 40}],
        "rule": "as C10; the jobsync monitor compares every stored Job version with its predecessor (startTime, finished condition, createdTasks, recorded timestamps)",
        "trusted": JOB_TRUSTED,
        "assumptions": [],
        "level_text": "Theorems: state = condition and phase terminal <=> finished for every computed status (after the fix 5264e9a also for deleting Jobs); counters = task list; refs never dropped, recorded times never cleared by any merge. Pairwise monotonicity over stored versions (startTime, finished stays finished) is judged on histories by the jobsync monitor.",
        "level_note": "Trusted: as C10.",
    },
    "C01": {
        "props_file": "Props/C01.v",
        "theorems": ["c01_get_next_least", "c01_fires_of_exact", "c01_population", "c01_tick_terminates_and_spec", "c01_sound_never_early", "c01_once_ordered", "c01_complete_or_capped", "c01_never_more_than_cap", "c01_resumes_from_present", "c01_array_heap_new", "c01_array_heap_push", "c01_array_heap_update", "c01_array_heap_delete", "c01_array_heap_pop_min", "c01_array_heap_histories"],
        "families": [{"name": "cron", "n_quick": 160, "n_thorough": 4000}, {"name": "heap", "n_quick": 600, "n_thorough": 12000}],
        "rule": "heap: histories of New(0-32 distinct items, shuffled)/Push(absent)/Pop/Peek/Search/Update/Delete (present and absent names, many priority ties) on the real pkg/utils/heap.Heap; observed after every op: slice in array order, name index, result; independent monitor: content, index, heap order, Peek/Pop least priority. cron: seeded histories of JobConfig populations (1-40, multi-expression, H fields, bounded year fields, tz names / UTC+-offsets / config default), Init, ticks (regular, delayed, stalled, sub-second, clock advancing during Work), schedule/status updates, deletes, re-creates, lagging event delivery, restarts; run on the real CronWorker+InformerWorker; non-trivial = at least one schedule request was made; distinct by (seed, case index, number of requests)",
        "trusted": CRON_TRUSTED,
        "assumptions": ["EnqueueJobConfig does not fail", "the controller clock never goes backwards"],
        "level_text": "Theorems over all populations, all tick histories and all oracle lists: per-key projection of the shared pop loop (with termination), soundness, never early, exactly-once/ordered, completeness with the missed-schedule cap, resume-from-present; model tied to CronWorker/Schedule by a differential stream with heap-state comparison after every op, plus an independent executable restatement of the property as monitor.",
        "level_note": "Trusted: Coq kernel + vm_compute, the cron oracle (cronexpr/tzdata), the harness. The array heap of pkg/utils/heap (slice, name index, the sift loops of container/heap) is modelled slot by slot (heap stream) and proved to refine the key->priority map of the cron model: heap order, index consistency, Peek/Pop least priority, Push/Update/Delete as map operations, over all histories.",
    },
    "C03": {
        "props_file": "Props/C03.v",
        "theorems": ["c03_events", "c03_new_only", "c03_then_c01", "c03_last_update_wins", "c03_stop_on_disable", "c03_stop_on_delete", "c03_start_on_create_refuted", "c03_recreate_refuted"],
        "families": [{"name": "cron", "n_quick": 160, "n_thorough": 4000}],
        "rule": "same stream as C01 (cron); the monitor's C03 signatures judge requests against the JobConfig's API state after each delivered event",
        "trusted": CRON_TRUSTED,
        "assumptions": ["settled flushes in c03_new_only: the flushed object is the lister's current object (several schedule changes of one JobConfig in flight at once are covered by the correspondence stream and the monitor, not by the theorem)"],
        "level_text": "Theorems: which events flush; a processed flush re-bases the key on the new object only, strictly after the flush instant, then C01 applies; disable/delete stop scheduling. Two clauses are refuted on the faithful model with vm_compute witnesses (F1 start-on-create, F2 delete+recreate) and reproduced on the real code; they are recorded as known findings.",
        "level_note": "Trusted: as C01. Known findings F1, F1b, F2 are open.",
    },
    "C04": {
        "props_file": "Props/C04.v",
        "theorems": ["c04_reference", "c04_first_tick", "c04_no_repeat", "c04_never_scheduled_not_backscheduled", "c04_threshold_default"],
        "families": [{"name": "cron", "n_quick": 160, "n_thorough": 4000}, {"name": "jcstatus", "n_quick": 200, "n_thorough": 6000}],
        "rule": "jcstatus: the stream of C15 (the value a restart resumes from is status.lastScheduled as the jobconfig controller stores it; its monitor reports, under C04, every write that moves it backwards). cron: same stream as C01: restarts at arbitrary instants with lastScheduled/lastUpdated/notBefore on the lattice around the restart time and thresholds 0/unset/60/120/300/600/negative",
        "trusted": CRON_TRUSTED,
        "assumptions": ["status.lastScheduled is what jobconfigcontroller persisted (its monotonicity is C15)"],
        "level_text": "Theorems: the reference time equals the max-of-four specification for all presence patterns and orderings; the first tick after a start requests exactly the first maxMissed fire times in (reference, now]; nothing at or before lastScheduled; never-scheduled JobConfigs are not back-scheduled. Tied to cronschedule.New/CronWorker by the cron stream.",
        "level_note": "Trusted: as C01.",
    },
    "C02": {
        "props_file": "Props/C02.v",
        "theorems": ["c02_key_roundtrip", "c02_key_injective", "c02_name_injective", "c02_at_most_one", "c02_at_most_one_per_uid", "c02_identity", "c02_created_identity", "c02_idempotent"],
        "families": [{"name": "keys", "n_quick": 1500, "n_thorough": 40000}, {"name": "recon", "n_quick": 400, "n_thorough": 12000}],
        "rule": "keys: seeded generator of (key, unix time) pairs and malformed key strings; non-trivial when the call succeeds; distinct by input. recon: histories of 12-60 ops on the real croncontroller.Reconciler + ExecutionControl under reconciler.Controller.work: schedule requests for 5 JobConfig names (dots and dashes) x 5 times with duplicates, out-of-order re-deliveries and malformed keys; JobConfigs created/replaced (new UID)/deleted, with Forbid/maxConcurrency/status.queued limits and templates that themselves carry the schedule-time annotation or the jobconfig-uid label; Job-cache deliveries one at a time; injected server errors and Invalid responses on create; AlreadyExists from the API's name uniqueness; rate-limited re-adds fired at arbitrary points; restarts (queue lost, cache re-listed, requests repeated); Job deletions; active-count and maxEnqueuedJobs changes. Observed after every op: Jobs in the API with identity fields, queue ready/delayed, outcome. non-trivial = more than one Job created; distinct by op list",
        "trusted": ["Coq.Numbers.DecimalString/DecimalZ as the definition of decimal printing (compared with Go's %v / strconv.Atoi by the keys stream)", "the active-job store is a stub returning a history-controlled count; the event recorder is a stub"],
        "assumptions": ["API-server name uniqueness within a namespace is part of the API model (create of an existing name fails with AlreadyExists)", "at-most-one is stated per (owner JobConfig name, schedule time); with the identity theorem it is per UID whenever one UID is only ever used under one name (Kubernetes UIDs)", "Jobs created by other actors under a colliding name are not generated"],
        "level_text": "Theorems (all inputs / all histories): key round trip, key and Job-name injectivity; in every reachable state of the reconciler world (queue, retries, lagging/empty cache, faults, restarts, deletions) Job names are unique and every Job has name = f(owner name, t), annotation = t, UID label = owner UID, hence at most one Job per JobConfig and schedule time; a created Job carries the identity of the cached JobConfig whatever its template says; re-processing an existing schedule time never changes the API. Model tied to the real Reconciler/ExecutionControl/NewJobFromJobConfig/reconciler.Controller by the recon stream; independent monitor groups the API Jobs by (owner UID, annotation).",
        "level_note": "Trusted: Coq kernel + vm_compute, the harness (SimQueue, create reactor), DecimalString as the meaning of %v.",
    },
}

NOT_APPLICABLE = [{"property_id": i, "reason": "not yet built in this round (planned in DESIGN.md section 7); no check is registered, nothing is claimed"}
                  for i in ALL_IDS if i not in PROPS]

