# Per-property configuration of ./check: which Coq file states the theorems, which
# correspondence streams tie the model to /repo, and the trusted base.

COMMON_TRUSTED = [
    "Coq 8.16.1 kernel (coqc, full .vo build via coq_makefile); vm_compute is used (Cases/*.v evaluation of the model on the harness's cases, finite sweeps, witness proofs); native_compute is not used",
    "no Axiom/Parameter/Conjecture/Admitted/admit, no top-level Variable/Hypothesis, no guard/positivity/universe switches: grepped on every run by ./check (forbidden_scan)",
    "the Go correspondence harness /verif/harness (generators, canonical projection, monitors, Coq literal printer) and the verif-tagged accessor files in /repo listed in MANIFEST.hooks",
    "no extraction: the model is evaluated inside coqc by vm_compute on the very cases the implementation ran",
]

HOOK_COMMITS = []

ALL_IDS = ["C%02d" % i for i in range(1, 21)]


CRON_TRUSTED = [
    "oracle: a single cron expression evaluated in its effective time zone (github.com/furiko-io/cronexpr + Go time/tzdata) is represented by the strictly increasing list of Unix seconds it matches inside the run horizon; the harness computes that list with its own parser-option logic and its own time.Location (structured choice), independent of pkg/execution/util/cron/parser.go and pkg/core/tzutils/parse.go; calendar arithmetic itself is not proved",
    "modelled rather than verified: container/heap + pkg/utils/heap (array layout and tie-breaking) are abstracted to a finite map key->priority; the stream compares the multiset of requests per tick, the per-key order, and the heap content (key, priority) after every op, and asserts names[queue[i].name]==i via the VerifDump hook",
    "the informer is the harness's synchronous SharedIndexInformer: cache updated at the op, handler delivery is a separate op; client-go's real informer is not exercised",
]

JOB_TRUSTED = [
    "Pods are abstracted to (name, index hash, retry, creation, controller-owned, phase, OOM flag, deletionTimestamp, status.startTime, container start/finish time); reason/message strings and container states beyond these are not modelled (compared only as controller-set reasons PendingTimeout/ForceDeleted/JobDeleted)",
    "times are whole seconds in the job world (metav1.Time precision)",
    "index hashes (parallel.HashIndex) are inputs of the job model; their generation and distinctness is C14",
]

PROPS = {
    "C10": {
        "props_file": "Props/C10.v",
        "theorems": ["c10_success_sound", "c10_failed_sound", "c10_exclusive", "c10_decided_iff_complete", "c10_finished_no_live", "c10_succeeded_real"],
        "families": [{"name": "jobpure", "n_quick": 1500, "n_thorough": 60000}, {"name": "jobsync", "n_quick": 120, "n_thorough": 3000, "optional": True}],
        "rule": "jobpure: generated (parallelism shape none/count/keys/matrix, strategy, maxAttempts, kill/deletion/admission-error flags, per-index attempt histories with every outcome incl. OOM, pre-recorded kills, flapping Pods, lost Pods, stored refs lagging the Pods, unsorted refs) evaluated by the real GenerateTaskRefs/UpdateJobTaskRefs/UpdateJobStatusFromTaskRefs/ComputeMissingIndexesForCreation; non-trivial = at least one ref or Pod; distinct by (shape, #refs, #pods, phase). jobsync: histories of the real reconciler (see C08)",
        "trusted": JOB_TRUSTED,
        "assumptions": ["refs whose index hash is not an index of the spec are outside c10_finished_no_live"],
        "level_text": "Theorems for all ref lists: Success/Failed soundness w.r.t. the strategy read back index by index, exclusivity, decided<->complete, finished => no recorded task without finish time, Pod->result mapping; tied to parallel.GetParallelStatus/job.GetCondition/GetPhase/GetTaskRef by the jobpure stream and to the reconciler by the jobsync stream; history-level clauses (does reach the result; no Pod alive at the finishing write) are judged by the jobsync monitor against the simulated kubelet's ground truth.",
        "level_note": "Trusted: Coq kernel + vm_compute; index hashes are an oracle here (C14); the harness.",
    },
    "C11": {
        "props_file": "Props/C11.v",
        "theorems": ["c11_state_and_phase", "c11_phase_terminal_iff_finished", "c11_counters", "c11_tasks_never_dropped", "c11_times_never_cleared", "c11_times_kept_when_pod_gone"],
        "families": [{"name": "jobpure", "n_quick": 1500, "n_thorough": 60000}, {"name": "jobsync", "n_quick": 120, "n_thorough": 3000, "optional": True}],
        "rule": "as C10; the jobsync monitor compares every stored Job version with its predecessor (startTime, finished condition, createdTasks, recorded timestamps)",
        "trusted": JOB_TRUSTED,
        "assumptions": [],
        "level_text": "Theorems: state = condition and phase terminal <=> finished for every computed status (after the fix 5264e9a also for deleting Jobs); counters = task list; refs never dropped, recorded times never cleared by any merge. Pairwise monotonicity over stored versions (startTime, finished stays finished) is judged on histories by the jobsync monitor.",
        "level_note": "Trusted: as C10.",
    },
    "C01": {
        "props_file": "Props/C01.v",
        "theorems": ["c01_get_next_least", "c01_fires_of_exact", "c01_population", "c01_tick_terminates_and_spec", "c01_sound_never_early", "c01_once_ordered", "c01_complete_or_capped", "c01_never_more_than_cap", "c01_resumes_from_present"],
        "families": [{"name": "cron", "n_quick": 160, "n_thorough": 4000}],
        "rule": "seeded histories of JobConfig populations (1-40, multi-expression, H fields, bounded year fields, tz names / UTC+-offsets / config default), Init, ticks (regular, delayed, stalled, sub-second, clock advancing during Work), schedule/status updates, deletes, re-creates, lagging event delivery, restarts; run on the real CronWorker+InformerWorker; non-trivial = at least one schedule request was made; distinct by (seed, case index, number of requests)",
        "trusted": CRON_TRUSTED,
        "assumptions": ["EnqueueJobConfig does not fail", "the controller clock never goes backwards"],
        "level_text": "Theorems over all populations, all tick histories and all oracle lists: per-key projection of the shared pop loop (with termination), soundness, never early, exactly-once/ordered, completeness with the missed-schedule cap, resume-from-present; model tied to CronWorker/Schedule by a differential stream with heap-state comparison after every op, plus an independent executable restatement of the property as monitor.",
        "level_note": "Trusted: Coq kernel + vm_compute, the cron oracle (cronexpr/tzdata), the harness. The array heap is abstracted to a map (compared, not proved).",
    },
    "C03": {
        "props_file": "Props/C03.v",
        "theorems": ["c03_events", "c03_new_only", "c03_then_c01", "c03_stop_on_disable", "c03_stop_on_delete", "c03_start_on_create_refuted", "c03_recreate_refuted"],
        "families": [{"name": "cron", "n_quick": 160, "n_thorough": 4000}],
        "rule": "same stream as C01 (cron); the monitor's C03 signatures judge requests against the JobConfig's API state after each delivered event",
        "trusted": CRON_TRUSTED,
        "assumptions": ["settled flushes in c03_new_only: the flushed object is the lister's current object (several schedule changes of one JobConfig in flight at once are covered by the correspondence stream and the monitor, not by the theorem)"],
        "level_text": "Theorems: which events flush; a processed flush re-bases the key on the new object only, strictly after the flush instant, then C01 applies; disable/delete stop scheduling. Two clauses are refuted on the faithful model with vm_compute witnesses (F1 start-on-create, F2 delete+recreate) and reproduced on the real code; they are recorded as known findings.",
        "level_note": "Trusted: as C01. Known findings F1, F1b, F2 are open.",
    },
    "C04": {
        "props_file": "Props/C04.v",
        "theorems": ["c04_reference", "c04_first_tick", "c04_no_repeat", "c04_never_scheduled_not_backscheduled", "c04_threshold_default"],
        "families": [{"name": "cron", "n_quick": 160, "n_thorough": 4000}],
        "rule": "same stream as C01 (cron): restarts at arbitrary instants with lastScheduled/lastUpdated/notBefore on the lattice around the restart time and thresholds 0/unset/60/120/300/600/negative",
        "trusted": CRON_TRUSTED,
        "assumptions": ["status.lastScheduled is what jobconfigcontroller persisted (its monotonicity is C15)"],
        "level_text": "Theorems: the reference time equals the max-of-four specification for all presence patterns and orderings; the first tick after a start requests exactly the first maxMissed fire times in (reference, now]; nothing at or before lastScheduled; never-scheduled JobConfigs are not back-scheduled. Tied to cronschedule.New/CronWorker by the cron stream.",
        "level_note": "Trusted: as C01.",
    },
    "C02": {
        "props_file": "Props/C02.v",
        "theorems": ["c02_key_roundtrip", "c02_key_injective", "c02_name_injective"],
        "families": [{"name": "keys", "n_quick": 1500, "n_thorough": 40000}],
        "rule": "seeded generator of (key, unix time) pairs and malformed key strings; a case is non-trivial when the call succeeds; distinct by input",
        "trusted": ["Coq.Numbers.DecimalString/DecimalZ as the definition of decimal printing (compared with Go's %v / strconv.Atoi by the keys stream)"],
        "assumptions": ["API-server name uniqueness within a namespace"],
        "level_text": "Theorems (all inputs): key round trip, key and Job-name injectivity; model tied to the code by a differential stream over Join/Split/GenerateName.",
        "level_note": "Trusted: Coq kernel + vm_compute, the harness, DecimalString as the meaning of %v; API-server name uniqueness is assumed.",
    },
}

NOT_APPLICABLE = [{"property_id": i, "reason": "not yet built in this round (planned in DESIGN.md section 7); no check is registered, nothing is claimed"}
                  for i in ALL_IDS if i not in PROPS]

