# Per-property configuration of ./check: which Coq file states the theorems, which
# correspondence streams tie the model to /repo, and the trusted base.

COMMON_TRUSTED = [
    "Coq 8.16.1 kernel (coqc, full .vo build via coq_makefile); vm_compute is used (Cases/*.v evaluation of the model on the harness's cases, finite sweeps, witness proofs); native_compute is not used",
    "no Axiom/Parameter/Conjecture/Admitted/admit, no top-level Variable/Hypothesis, no guard/positivity/universe switches: grepped on every run by ./check (forbidden_scan)",
    "the Go correspondence harness /verif/harness (generators, canonical projection, monitors, Coq literal printer) and the verif-tagged accessor files in /repo listed in MANIFEST.hooks",
    "no extraction: the model is evaluated inside coqc by vm_compute on the very cases the implementation ran",
]

HOOK_COMMITS = []

ALL_IDS = ["C%02d" % i for i in range(1, 21)]

PROPS = {
    "C02": {
        "props_file": "Props/C02.v",
        "theorems": ["c02_key_roundtrip", "c02_key_injective", "c02_name_injective"],
        "families": [{"name": "keys", "n_quick": 1500, "n_thorough": 40000}],
        "rule": "seeded generator of (key, unix time) pairs and malformed key strings; a case is non-trivial when the call succeeds; distinct by input",
        "trusted": ["Coq.Numbers.DecimalString/DecimalZ as the definition of decimal printing (compared with Go's %v / strconv.Atoi by the keys stream)"],
        "assumptions": ["API-server name uniqueness within a namespace"],
        "level_text": "Theorems (all inputs): key round trip, key and Job-name injectivity; model tied to the code by a differential stream over Join/Split/GenerateName.",
        "level_note": "Trusted: Coq kernel + vm_compute, the harness, DecimalString as the meaning of %v; API-server name uniqueness is assumed.",
    },
}

NOT_APPLICABLE = [{"property_id": i, "reason": "not yet built in this round (planned in DESIGN.md section 7); no check is registered, nothing is claimed"}
                  for i in ALL_IDS if i not in PROPS]

