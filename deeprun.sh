#!/bin/bash
# deeprun.sh fam n seed : harness-only run, prints unknown signatures
fam=$1; n=$2; seed=$3; d=/root/scratch/deep_${fam}_$seed; rm -rf $d; mkdir -p $d
/verif/harness/bin/harness $fam -seed $seed -n $n -shard 100000 -out $d >/dev/null 2>&1
python3 - <<PY
import json,collections
kf=json.load(open('/verif/known_findings.json'))
def walk(x,acc):
    if isinstance(x,dict):
        if 'signature' in x: acc.append((x['signature'],x.get('match')))
        for v in x.values(): walk(v,acc)
    elif isinstance(x,list):
        for y in x: walk(y,acc)
acc=[];walk(kf,acc)
def known(s):
    for sig,m in acc:
        if m=='suffix' and s.endswith(sig): return True
        if s==sig: return True
    return False
try:
    d=json.load(open('$d/$fam.json'))
    c=collections.Counter(h['signature'] for h in (d['hits'] or []) if not known(h['signature']))
    print('$fam seed $seed n $n cases',d.get('cases'),'UNKNOWN:',dict(c))
    for h in (d['hits'] or []):
        if not known(h['signature']):
            print('   ',h['signature'],h['what'][:300]); break
except Exception as e: print('$fam seed $seed FAILED',e)
PY
rm -rf $d
