#!/bin/bash
# seed_test.sh <seeded-id> <property>... : applies /verif/seeded/<id>/patch.diff to /repo, runs the
# quick checks of the given properties, and undoes the patch. Prints one line per check.
id=$1; shift
git -C /repo apply /verif/seeded/$id/patch.diff || { echo "patch failed"; exit 2; }
for p in "$@"; do
  out=$(cd /verif && ./check $p --tier quick 2>&1); rc=$?
  echo "== seeded/$id vs $p: exit=$rc"; echo "$out" | grep -v "^KNOWN-FINDING" | head -6
done
git -C /repo checkout -- .
(cd /verif && ./hb.sh >/dev/null 2>&1)  # the harness binary was built against the patched tree
