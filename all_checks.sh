#!/bin/bash
# all_checks.sh <seed> [tier]: every registered quick check once with the given seed; summary in /root/scratch/all_<seed>.txt
seed=${1:-1}; tier=${2:-quick}; out=/root/scratch/all_${seed}_${tier}.txt; : > $out
for id in C01 C02 C03 C04 C05 C06 C07 C08 C09 C10 C11 C12 C13 C14 C15 C16 C17 C18 C19 C20; do
  r=$(cd /verif && VERIF_SEED=$seed ./check $id --tier $tier 2>&1); rc=$?
  echo "$id rc=$rc $(echo "$r" | grep -v '^KNOWN-FINDING' | tail -2 | tr '\n' '|' | cut -c1-300)" >> $out
done
