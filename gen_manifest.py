#!/usr/bin/env python3
"""Writes MANIFEST.json from checks_table.py (single source of truth)."""
import json, sys, os
sys.path.insert(0, os.path.dirname(os.path.abspath(__file__)))
from checks_table import PROPS, COMMON_TRUSTED, NOT_APPLICABLE, HOOK_COMMITS
checks = []
for pid in sorted(PROPS):
    s = PROPS[pid]
    checks.append({
        "property_id": pid,
        "quick_cmd": "./check %s --tier quick" % pid,
        "thorough_cmd": "./check %s --tier thorough" % pid,
        "evidence_file": "/verif/evidence/%s.json" % pid,
        "replay_cmd_template": "./check %s --replay {path}" % pid,
        "engine": "coq-model+correspondence",
        "level_claimed": {"category": "proof", "text": s["level_text"], "design_ref": "DESIGN.md section 7, %s" % pid},
        "level_note": s["level_note"],
        "technique": s.get("technique", "Rocq/Coq theorems over a hand-written Gallina model; model tied to /repo by a differential correspondence check evaluated with vm_compute"),
    })
m = {
    "version": 1,
    "setup_cmd": "./setup.sh",
    "hooks": {
        "guard": "verif",
        "enable": "go build -tags verif (the harness module /verif/harness replaces github.com/furiko-io/furiko by /repo)",
        "baseline_off_cmd": "cd /repo && go test -mod=mod -vet=off -count=1 -timeout 25m ./...",
        "source_commits": HOOK_COMMITS,
        "add_only": True,
    },
    "engines": [{"name": "coq-model+correspondence", "path": "/verif/check", "serves_properties": sorted(PROPS),
                 "kind_free_text": "Coq 8.16.1 development /verif/coq (models, proofs, Props/Cnn.v) + Go harness /verif/harness that runs the real furiko code on generated cases and emits Cases/*.v for vm_compute comparison + monitors"}],
    "checks": checks,
    "not_applicable": NOT_APPLICABLE,
    "notes": "See DESIGN.md. Evidence is rewritten by ./check on every run; known_findings.json lists recorded defects of the unchanged tree.",
}
json.dump(m, open(os.path.join(os.path.dirname(os.path.abspath(__file__)), "MANIFEST.json"), "w"), indent=1)
print("MANIFEST.json written: %d checks, %d not_applicable" % (len(checks), len(NOT_APPLICABLE)))
