#!/bin/sh
# builds the harness against /repo (developer convenience; ./check does the same)
cd /verif/harness && export GOFLAGS=-mod=mod GOPROXY=off GOSUMDB=off GOTOOLCHAIN=local CGO_ENABLED=0 && gofmt -w . ; go build -tags verif -o bin/harness . 2>&1 | head -40
