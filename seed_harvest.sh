#!/bin/bash
# seed_harvest.sh <PID> [variant]  — verifies a sub-agent's seeded change independently
# in a fresh scratch worktree and stores it under /verif/seeded/<PID><variant>/.
# Checks: patch applies; packages build; demo fails with the patch and passes without;
# the existing tests of ./pkg/... still pass with the patch (demo excluded).
set -u
PID=$1; VAR=${2:-}
SRC=${SRCDIR:-/tmp/seed/$PID$VAR/SEED}
DST=/verif/seeded/$PID$VAR
WT=/root/scratch/harvest_$PID$VAR
export GOFLAGS=-mod=mod GOPROXY=off GOSUMDB=off GOTOOLCHAIN=local
[ -f $SRC/patch.diff ] || { echo "no patch at $SRC"; exit 2; }
rm -rf $WT; git -C /repo worktree add --detach -f $WT HEAD >/dev/null 2>&1 || exit 2
DEMOPATH=$(grep -o '[A-Za-z0-9_./-]*_test\.go' $SRC/demo_path.txt | head -1)
cp $SRC/demo_test.go.txt $WT/$DEMOPATH
PKG=./$(dirname $DEMOPATH)
cd $WT
RUNPAT=TestSeedDemo
echo "== demo without patch ($PKG $RUNPAT)"
go test -p 8 -vet=off -count=1 -run "$RUNPAT" $PKG > /root/scratch/h_$PID$VAR.clean.log 2>&1; CLEAN=$?
git apply $SRC/patch.diff || { echo "patch does not apply"; exit 2; }
echo "== build with patch"
go build ./pkg/... ./cmd/... ./apis/... > /root/scratch/h_$PID$VAR.build.log 2>&1; BUILD=$?
echo "== demo with patch"
go test -p 8 -vet=off -count=1 -run "$RUNPAT" $PKG > /root/scratch/h_$PID$VAR.patched.log 2>&1; PATCHED=$?
echo "== existing suite with patch (demo skipped)"
mv $DEMOPATH /root/scratch/h_$PID$VAR.demo.go
go test -p 8 -vet=off -count=1 ./pkg/... ./apis/... ./cmd/... > /root/scratch/h_$PID$VAR.suite.log 2>&1; SUITE=$?
if [ $SUITE != 0 ]; then
  # the pty-driven CLI tests are timing-sensitive under load: re-run failing packages alone
  FP=$(grep '^FAIL\s' /root/scratch/h_$PID$VAR.suite.log | awk '{print $2}' | sort -u | tr '\n' ' ')
  echo "re-running alone: $FP"
  for try in 1 2 3 4 5; do
    go test -p 1 -vet=off -count=1 $FP > /root/scratch/h_$PID$VAR.suite2.log 2>&1; SUITE=$?
    [ $SUITE = 0 ] && break
  done
fi
FAILS=$(grep -c '^FAIL\|^--- FAIL' /root/scratch/h_$PID$VAR.suite.log)
echo "clean=$CLEAN build=$BUILD patched=$PATCHED suite=$SUITE suitefails=$FAILS"
cd /; git -C /repo worktree remove --force $WT
if [ $CLEAN = 0 ] && [ $BUILD = 0 ] && [ $PATCHED != 0 ] && [ $SUITE = 0 ]; then
  mkdir -p $DST
  cp $SRC/patch.diff $DST/patch.diff
  cp $SRC/demo_test.go.txt $DST/demo_test.go.txt
  cp $SRC/demo_path.txt $DST/demo_path.txt
  cp $SRC/notes.md $DST/notes.md
  python3 - "$PID" "$VAR" "$DEMOPATH" "$RUNPAT" <<'PY'
import json,sys
pid,var,demo,run=sys.argv[1:5]
notes=open(f"/verif/seeded/{pid}{var}/notes.md").read()
json.dump({"id":pid+var,"property":pid,"origin":"independent sub-agent given only the property text and a scratch worktree",
 "needs_to_manifest":notes[:1500],
 "demo":{"path":demo,"run":f"go test -vet=off -count=1 -run {run} ./{demo.rsplit('/',1)[0]}"},
 "confirmed_by":"seed_harvest.sh in a fresh worktree of /repo: demo passes without patch, fails with patch; go build of ./pkg ./cmd ./apis ok; existing go test ./pkg/... ./apis/... ./cmd/... passes with patch",
 "detected_by":"(filled in after running the checks)"},open(f"/verif/seeded/{pid}{var}/meta.json","w"),indent=1)
PY
  echo "KEPT $DST"
else
  echo "REJECTED (see /root/scratch/h_$PID$VAR.*.log)"
fi
