package main

import (
	"context"
	"fmt"
	"sort"
	"strconv"
	"strings"
	"time"

	apierrors "k8s.io/apimachinery/pkg/api/errors"
	metav1 "k8s.io/apimachinery/pkg/apis/meta/v1"
	"k8s.io/apimachinery/pkg/runtime"
	"k8s.io/apimachinery/pkg/runtime/schema"
	"k8s.io/apimachinery/pkg/types"
	"k8s.io/apimachinery/pkg/util/validation/field"
	k8stesting "k8s.io/client-go/testing"
	clocktesting "k8s.io/utils/clock/testing"

	configv1alpha1 "github.com/furiko-io/furiko/apis/config/v1alpha1"
	execution "github.com/furiko-io/furiko/apis/execution/v1alpha1"
	"github.com/furiko-io/furiko/pkg/execution/controllers/croncontroller"
	"github.com/furiko-io/furiko/pkg/execution/util/jobconfig"
	"github.com/furiko-io/furiko/pkg/runtime/reconciler"
)

// Family "recon" (C02): the real croncontroller.Reconciler + ExecutionControl under the real
// reconciler.Controller retry loop, against Cron/Recon.v.

func init() {
	register(&Family{Name: "recon", Run: runRecon, CheckModule: "Cases.ReconCheck", CaseOK: "recon_ok"})
}

type rOp struct {
	Kind   string  `json:"kind"`
	Key    string  `json:"key,omitempty"`
	Name   string  `json:"name,omitempty"`
	N      int64   `json:"n,omitempty"`
	Fault  string  `json:"fault,omitempty"`
	UID    string  `json:"uid,omitempty"`
	Forbid bool    `json:"forbid,omitempty"`
	MaxC   int64   `json:"maxc,omitempty"`
	Queued int64   `json:"queued,omitempty"`
	Adv    int64   `json:"clock_advance,omitempty"` // seconds the controller clock advances before the op (not modelled: the reconciler must not depend on it)
	Ann    *string `json:"ann,omitempty"`
	Lbl    *string `json:"lbl,omitempty"`
}

func cOptStr(p *string) string {
	if p == nil {
		return "None"
	}
	return "(Some " + CStr(*p) + ")"
}

func (o rOp) coq() string {
	switch o.Kind {
	case "request":
		return CApp("RRequest", CStr(o.Key))
	case "work":
		return "RWork"
	case "fire":
		return "RFire"
	case "advance":
		return "RAdvance"
	case "fault":
		return CApp("RFault", map[string]string{"server": "RFServer", "invalid": "RFInvalid"}[o.Fault])
	case "restart":
		return "RRestart"
	case "deletejob":
		return CApp("RDeleteJob", CStr(o.Name))
	case "setactive":
		return CApp("RSetActive", CZ(o.N))
	case "setmaxq":
		return CApp("RSetMaxQ", "(Some "+CZ(o.N)+")")
	case "setjc":
		return CApp("RSetJC", CApp("mkRJC", CStr(o.Name), CStr(o.UID), CBool(o.Forbid), CZ(o.MaxC), CZ(o.Queued), cOptStr(o.Ann), cOptStr(o.Lbl)))
	case "deljc":
		return CApp("RDelJC", CStr(o.Name))
	}
	panic(o.Kind)
}

type rStore struct{ n int64 }

func (s *rStore) CountActiveJobsForConfig(*execution.JobConfig) int64 { return s.n }
func (s *rStore) CheckAndAdd(*execution.JobConfig, int64) bool        { return true }
func (s *rStore) Delete(*execution.JobConfig)                         {}

type rRecorder struct{ log []string }

func (r *rRecorder) CreatedJob(_ context.Context, _ *execution.JobConfig, j *execution.Job) {
	r.log = append(r.log, "created "+j.Name)
}
func (r *rRecorder) CreateJobFailed(_ context.Context, _ *execution.JobConfig, j *execution.Job, _ string) {
	r.log = append(r.log, "createfailed "+j.Name)
}
func (r *rRecorder) SkippedJobSchedule(_ context.Context, _ *execution.JobConfig, _ time.Time, _ string) {
	r.log = append(r.log, "skipped")
}

type rImpl struct {
	clk     *clocktesting.FakeClock
	sc      *SimContext
	q       *SimQueue
	ctrl    *reconciler.Controller
	store   *rStore
	rec     *rRecorder
	api     []*execution.Job
	pending []func()
	faults  []string
	lastOut int64
	creates []string // every create the API accepted, in order (names)
}

func (im *rImpl) boot() {
	cctx := croncontroller.NewContext(im.sc)
	im.q = NewSimQueue()
	cctx.VerifSetQueue(im.q)
	client := croncontroller.NewExecutionControl("recon", im.sc.Clientsets().Furiko().ExecutionV1alpha1(), im.rec)
	im.ctrl = reconciler.NewController(croncontroller.NewReconciler(cctx, client, im.rec, im.store, nil), im.q)
}

func newRImpl() *rImpl {
	im := &rImpl{sc: NewSimContext(), store: &rStore{}, rec: &rRecorder{}, clk: clocktesting.NewFakeClock(time.Unix(1700000130, 0))}
	croncontroller.Clock = im.clk
	im.sc.clientsets.FurikoMock().PrependReactor("create", "jobs", im.reactCreate)
	im.boot()
	return im
}

func (im *rImpl) apiGet(name string) *execution.Job {
	for _, j := range im.api {
		if j.Name == name {
			return j
		}
	}
	return nil
}

func (im *rImpl) reactCreate(action k8stesting.Action) (bool, runtime.Object, error) {
	rj := action.(k8stesting.CreateAction).GetObject().(*execution.Job).DeepCopy()
	if len(im.faults) > 0 {
		f := im.faults[0]
		im.faults = im.faults[1:]
		if f == "server" {
			return true, nil, apierrors.NewInternalError(fmt.Errorf("injected"))
		}
		return true, nil, apierrors.NewInvalid(schema.GroupKind{Group: "execution.furiko.io", Kind: "Job"}, rj.Name,
			field.ErrorList{field.Invalid(field.NewPath("spec"), "x", "injected")})
	}
	if im.apiGet(rj.Name) != nil {
		return true, nil, apierrors.NewAlreadyExists(schema.GroupResource{Group: "execution.furiko.io", Resource: "jobs"}, rj.Name)
	}
	rj.UID = types.UID("job-uid-" + strconv.Itoa(len(im.creates)))
	im.api = append(im.api, rj)
	im.creates = append(im.creates, rj.Name)
	c := rj.DeepCopy()
	im.pending = append(im.pending, func() { im.sc.informers.Jobs.Set(c) })
	im.lastOut = 2
	return true, rj.DeepCopy(), nil
}

func (im *rImpl) apply(o rOp) {
	im.lastOut = 0
	if o.Adv > 0 {
		im.clk.Step(time.Duration(o.Adv) * time.Second)
	}
	switch o.Kind {
	case "request":
		im.q.Add("ns/" + o.Key)
	case "work":
		if im.q.Len() > 0 {
			before := len(im.q.Log)
			im.lastOut = 1
			im.ctrl.VerifWorkOne(context.Background())
			for _, l := range im.q.Log[before:] {
				if len(l) > 11 && l[:11] == "ratelimited" {
					im.lastOut = 3
				}
			}
		}
	case "fire":
		im.q.Fire(0)
	case "advance":
		if len(im.pending) > 0 {
			im.pending[0]()
			im.pending = im.pending[1:]
		}
	case "fault":
		im.faults = append(im.faults, o.Fault)
	case "restart":
		for _, k := range im.sc.informers.Jobs.indexer.ListKeys() {
			im.sc.informers.Jobs.Remove(k)
		}
		for _, j := range im.api {
			im.sc.informers.Jobs.Set(j.DeepCopy())
		}
		im.pending = nil
		im.boot()
	case "deletejob":
		if im.apiGet(o.Name) != nil {
			var keep []*execution.Job
			for _, j := range im.api {
				if j.Name != o.Name {
					keep = append(keep, j)
				}
			}
			im.api = keep
			key := "ns/" + o.Name
			im.pending = append(im.pending, func() { im.sc.informers.Jobs.Remove(key) })
		}
	case "setactive":
		im.store.n = o.N
	case "setmaxq":
		im.sc.SetConfig(configv1alpha1.JobConfigExecutionConfigName, &configv1alpha1.JobConfigExecutionConfig{MaxEnqueuedJobs: &o.N})
	case "setjc":
		jc := &execution.JobConfig{ObjectMeta: metav1.ObjectMeta{Namespace: "ns", Name: o.Name, UID: types.UID(o.UID)}}
		if o.Forbid {
			jc.Spec.Concurrency.Policy = execution.ConcurrencyPolicyForbid
		} else {
			jc.Spec.Concurrency.Policy = execution.ConcurrencyPolicyAllow
		}
		jc.Spec.Concurrency.MaxConcurrency = &o.MaxC
		jc.Status.Queued = o.Queued
		jc.Spec.Template.Annotations = map[string]string{"team": "x"}
		jc.Spec.Template.Labels = map[string]string{"app": "y"}
		if o.Ann != nil {
			jc.Spec.Template.Annotations[jobconfig.AnnotationKeyScheduleTime] = *o.Ann
		}
		if o.Lbl != nil {
			jc.Spec.Template.Labels[jobconfig.LabelKeyJobConfigUID] = *o.Lbl
		}
		im.sc.informers.JobConfigs.Set(jc)
	case "deljc":
		im.sc.informers.JobConfigs.Remove("ns/" + o.Name)
	}
}

func jobIdentity(j *execution.Job) (ownerName, ownerUID, label, ann string, forbid bool) {
	if ref := metav1.GetControllerOf(j); ref != nil && ref.Kind == execution.KindJobConfig {
		ownerName, ownerUID = ref.Name, string(ref.UID)
	}
	label = j.Labels[jobconfig.LabelKeyJobConfigUID]
	ann = j.Annotations[jobconfig.AnnotationKeyScheduleTime]
	forbid = j.Spec.StartPolicy != nil && j.Spec.StartPolicy.ConcurrencyPolicy == execution.ConcurrencyPolicyForbid
	return
}

func (im *rImpl) obsTerm() string {
	var jobs []string
	for _, j := range im.api {
		on, ou, l, a, f := jobIdentity(j)
		jobs = append(jobs, CApp("mkCJ", CStr(j.Name), CStr(on), CStr(ou), CStr(l), CStr(a), CBool(f)))
	}
	strip := func(ks []string) []string {
		var out []string
		for _, k := range ks {
			out = append(out, k[3:])
		}
		return out
	}
	return CPair(CPair(CPair(CList(jobs), CListStr(strip(im.q.ready))), CListStr(strip(im.q.Delayed))), CZ(im.lastOut))
}

func runRecon(ctx *RunCtx) *Result {
	res := NewResult()
	p := NewPRNG(ctx.Seed)
	names := []string{"jc", "a.b", "jc-1", "x", "nightly.v2"}
	for i := 0; i < ctx.N; i++ {
		c := p.Fork()
		im := newRImpl()
		var ops []rOp
		var obsTerms []string
		var hits []MonitorHit
		hit := func(sig, what string) {
			for _, h := range hits {
				if h.Signature == sig {
					return
				}
			}
			hits = append(hits, MonitorHit{Property: "C02", Signature: sig, What: what})
		}
		uidGen := map[string]int{}
		curUID := map[string]string{}
		requested := map[string]bool{} // "<jobconfig name>|<unix>"
		monitor := func() {
			// at most one Job per (owner UID, schedule time); identity of every Job
			seen := map[string]string{}
			for _, j := range im.api {
				on, ou, l, a, _ := jobIdentity(j)
				k := ou + "|" + a
				if prev, ok := seen[k]; ok {
					hit("C02/two-jobs-for-one-schedule-time", fmt.Sprintf("Jobs %s and %s both belong to JobConfig uid %s, schedule time %s", prev, j.Name, ou, a))
				}
				seen[k] = j.Name
				if j.Name != on+"-"+a {
					hit("C02/name-not-function-of-jobconfig-and-time", fmt.Sprintf("Job %s: owner %s, schedule-time annotation %q", j.Name, on, a))
				}
				if l != ou {
					hit("C02/uid-label-differs-from-owner", fmt.Sprintf("Job %s: label %q, owner uid %q", j.Name, l, ou))
				}
				if ou == "" {
					hit("C02/job-without-owner", fmt.Sprintf("Job %s has no JobConfig controller reference", j.Name))
				}
				if !requested[on+"|"+a] {
					hit("C02/job-records-unrequested-schedule-time", fmt.Sprintf("Job %s of %s records schedule time %q, which was never requested", j.Name, on, a))
				}
			}
		}
		do := func(o rOp) {
			if o.Kind == "request" {
				if ix := strings.LastIndex(o.Key, "."); ix > 0 {
					if t, err := strconv.Atoi(o.Key[ix+1:]); err == nil {
						requested[o.Key[:ix]+"|"+strconv.Itoa(t)] = true
					}
				}
			}
			if (o.Kind == "work" || o.Kind == "fire") && c.Chance(1, 6) {
				o.Adv = Pick(c, []int64{1, 30, 200, 400, 4000})
			}
			ops = append(ops, o)
			im.apply(o)
			obsTerms = append(obsTerms, im.obsTerm())
			res.Count("op-" + o.Kind)
			if o.Kind == "work" {
				res.Count(fmt.Sprintf("work-outcome-%d", im.lastOut))
			}
			monitor()
		}
		setjc := func(name string, fresh bool) {
			if fresh || curUID[name] == "" {
				uidGen[name]++
				curUID[name] = fmt.Sprintf("uid-%s-%d", name, uidGen[name])
			}
			o := rOp{Kind: "setjc", Name: name, UID: curUID[name], Forbid: c.Chance(1, 4), MaxC: Pick(c, []int64{1, 1, 2}), Queued: Pick(c, []int64{0, 0, 0, 0, 3, 25})}
			if c.Chance(1, 4) {
				s := Pick(c, []string{"999", "1700000000", "junk"})
				o.Ann = &s
			}
			if c.Chance(1, 5) {
				s := "someone-elses-uid"
				o.Lbl = &s
			}
			do(o)
		}
		// start with one or two JobConfigs
		setjc(Pick(c, names), true)
		if c.Bool() {
			setjc(Pick(c, names), true)
		}
		times := []int64{1700000000, 1700000060, 1700000120, 5, 0}
		var keys []string
		nops := 12 + c.Intn(45)
		for k := 0; k < nops; k++ {
			switch r := c.Intn(100); {
			case r < 28:
				nm := Pick(c, names)
				if len(curUID) > 0 && c.Chance(4, 5) {
					var have []string
					for n := range curUID {
						have = append(have, n)
					}
					sort.Strings(have)
					nm = Pick(c, have)
				}
				key := nm + "." + strconv.FormatInt(Pick(c, times), 10)
				if len(keys) > 0 && c.Chance(1, 3) {
					key = Pick(c, keys) // a duplicate / out-of-order re-delivery
				}
				if c.Chance(1, 25) {
					key = Pick(c, []string{"jc", "jc.x", "jc.-5", "jc.1.2", ".7"})
				}
				keys = append(keys, key)
				do(rOp{Kind: "request", Key: key})
			case r < 58:
				do(rOp{Kind: "work"})
			case r < 66:
				do(rOp{Kind: "fire"})
			case r < 76:
				do(rOp{Kind: "advance"})
			case r < 82:
				do(rOp{Kind: "fault", Fault: Pick(c, []string{"server", "server", "invalid"})})
			case r < 85:
				do(rOp{Kind: "restart"})
				// after a restart the cron worker re-requests what it still considers due
				for _, key := range keys {
					if c.Chance(1, 2) {
						do(rOp{Kind: "request", Key: key})
					}
				}
			case r < 89:
				if len(im.api) > 0 {
					do(rOp{Kind: "deletejob", Name: Pick(c, im.api).Name})
				}
			case r < 92:
				do(rOp{Kind: "setactive", N: int64(c.Intn(3))})
			case r < 94:
				do(rOp{Kind: "setmaxq", N: Pick(c, []int64{0, 1, 20})})
			case r < 98:
				setjc(Pick(c, names), c.Chance(1, 3))
			default:
				do(rOp{Kind: "deljc", Name: Pick(c, names)})
			}
		}
		// drain: deliver everything, fire and work until nothing is left (bad keys retry forever: bounded)
		for round := 0; round < 6; round++ {
			for len(im.pending) > 0 {
				do(rOp{Kind: "advance"})
			}
			for n := len(im.q.Delayed); n > 0; n-- {
				do(rOp{Kind: "fire"})
			}
			for n := im.q.Len(); n > 0; n-- {
				do(rOp{Kind: "work"})
			}
		}
		var opTerms []string
		for _, o := range ops {
			opTerms = append(opTerms, o.coq())
		}
		sort.Strings(im.creates)
		term := CApp("mkReconCase", CList(opTerms), CList(obsTerms))
		js := map[string]interface{}{"ops": ops}
		for _, h := range hits {
			h.Case = js
			res.Hits = append(res.Hits, h)
		}
		res.Add(term, js, fmt.Sprint(ops), len(im.creates) > 1)
	}
	return res
}
