package main

import (
	"context"

	"k8s.io/apimachinery/pkg/runtime"

	configv1alpha1 "github.com/furiko-io/furiko/apis/config/v1alpha1"
	"github.com/furiko-io/furiko/pkg/runtime/controllercontext"
	"github.com/furiko-io/furiko/pkg/runtime/controllercontext/mock"
)

// SimContext is a controllercontext.Context assembled from: the repo's fake
// clientsets and mock config loader (the real ConfigManager underneath), the
// harness-driven informers, and a real store registry.
type SimContext struct {
	clientsets *mock.Clientsets
	configs    *mock.Configs
	informers  *SimInformers
	stores     *controllercontext.ContextStores
}

var _ controllercontext.Context = (*SimContext)(nil)

func NewSimContext() *SimContext {
	c := &SimContext{
		clientsets: mock.NewClientsets(),
		configs:    mock.NewConfigs(),
		informers:  NewSimInformers(),
		stores:     controllercontext.NewContextStores(),
	}
	if err := c.configs.Start(context.Background()); err != nil {
		panic(err)
	}
	return c
}

func (c *SimContext) Start(ctx context.Context) error          { return nil }
func (c *SimContext) Clientsets() controllercontext.Clientsets { return c.clientsets }
func (c *SimContext) Configs() controllercontext.Configs       { return c.configs }
func (c *SimContext) Stores() controllercontext.Stores         { return c.stores }
func (c *SimContext) Informers() controllercontext.Informers   { return c.informers }

func (c *SimContext) SetConfig(name configv1alpha1.ConfigName, cfg runtime.Object) {
	c.configs.SetConfigs(map[configv1alpha1.ConfigName]runtime.Object{name: cfg})
}

// ResetStores drops every registered store (controller restart).
func (c *SimContext) ResetStores() { c.stores = controllercontext.NewContextStores() }

// RegisterStore registers a store with the context.
func (c *SimContext) RegisterStore(s controllercontext.Store) { c.stores.Register(s) }
