package main

import (
	"encoding/json"
	"fmt"
	"sort"
	"strings"
	"time"

	corev1 "k8s.io/api/core/v1"
	metav1 "k8s.io/apimachinery/pkg/apis/meta/v1"
	"k8s.io/apimachinery/pkg/util/validation/field"

	execution "github.com/furiko-io/furiko/apis/execution/v1alpha1"
	"github.com/furiko-io/furiko/pkg/core/options"
	"github.com/furiko-io/furiko/pkg/execution/mutation"
	"github.com/furiko-io/furiko/pkg/execution/taskexecutor/podtaskexecutor"
	"github.com/furiko-io/furiko/pkg/execution/tasks"
	jobconfigutil "github.com/furiko-io/furiko/pkg/execution/util/jobconfig"
	"github.com/furiko-io/furiko/pkg/execution/util/parallel"
	"github.com/furiko-io/furiko/pkg/execution/variablecontext"
)

// Family "options" (C18): EvaluateOption / EvaluateOptionDefault for the five option
// types, SubstituteVariableMaps and NewPod's substitution, against Admission/Options.v.

func init() {
	register(&Family{Name: "options", Run: runOptions, CheckModule: "Cases.OptionsCheck", CaseOK: "opt_ok"})
}

var optWords = []string{"", "a", "b", "prod", "dev", " a ", "  ", "\t", "a b", "x,y", "${b}", "${option.x}", "true", "1", " prod\n"}

func coqVal(v interface{}) string {
	switch x := v.(type) {
	case nil:
		return "VNil"
	case bool:
		return CApp("VBool", CBool(x))
	case string:
		return CApp("VStr", CStr(x))
	case int:
		return CApp("VNum", CZ(int64(x)))
	case float64:
		return CApp("VNum", CZ(int64(x)))
	case []interface{}:
		var it []string
		for _, e := range x {
			it = append(it, coqVal(e))
		}
		return CApp("VList", CList(it))
	}
	panic(fmt.Sprintf("%T", v))
}

func eresOf(s string, err *field.Error) string {
	if err == nil {
		return CApp("Ok", CStr(s))
	}
	switch err.Type {
	case field.ErrorTypeRequired:
		return "ErrRequired"
	case field.ErrorTypeNotSupported:
		return "ErrNotSupported"
	default:
		return "ErrInvalid"
	}
}

func genOptValue(c *PRNG, t execution.OptionType) interface{} {
	if c.Chance(1, 4) {
		return nil
	}
	wrong := c.Chance(1, 8)
	switch t {
	case execution.OptionTypeBool:
		if wrong {
			return Pick(c, []interface{}{"true", 1, []interface{}{}})
		}
		return c.Bool()
	case execution.OptionTypeMulti:
		if wrong {
			return Pick(c, []interface{}{"a", true, 3, []interface{}{"a", 1}})
		}
		n := c.Intn(4)
		l := []interface{}{}
		for i := 0; i < n; i++ {
			l = append(l, Pick(c, optWords))
		}
		return l
	case execution.OptionTypeDate:
		if wrong {
			return Pick(c, []interface{}{true, 5})
		}
		return Pick(c, []string{"", "2021-02-09T04:06:13Z", "2021-02-09T04:06:13+08:00", "2021-02-09", "yesterday", "2024-12-31T23:59:59Z"})
	default:
		if wrong {
			return Pick(c, []interface{}{true, 7, []interface{}{"a"}})
		}
		return Pick(c, optWords)
	}
}

// genOption draws an option of one of the five types and its model term.
func genOption(c *PRNG, name string) (execution.Option, string) {
	o := execution.Option{Name: name, Required: c.Chance(1, 3)}
	o.Type = Pick(c, []execution.OptionType{execution.OptionTypeBool, execution.OptionTypeString, execution.OptionTypeSelect, execution.OptionTypeMulti, execution.OptionTypeDate})
	vals := []string{}
	for k := 0; k < c.Intn(4); k++ {
		vals = append(vals, Pick(c, optWords))
	}
	switch o.Type {
	case execution.OptionTypeBool:
		f := Pick(c, []execution.BoolOptionFormat{execution.BoolOptionFormatTrueFalse, execution.BoolOptionFormatOneZero, execution.BoolOptionFormatYesNo, execution.BoolOptionFormatCustom, "", "Weird"})
		o.Bool = &execution.BoolOptionConfig{Default: c.Bool(), Format: f, TrueVal: Pick(c, optWords), FalseVal: Pick(c, optWords)}
	case execution.OptionTypeString:
		o.String = &execution.StringOptionConfig{Default: Pick(c, optWords), TrimSpaces: c.Bool()}
	case execution.OptionTypeSelect:
		o.Select = &execution.SelectOptionConfig{Default: Pick(c, append(optWords, vals...)), Values: vals, AllowCustom: c.Chance(1, 3)}
	case execution.OptionTypeMulti:
		var d []string
		for k := 0; k < c.Intn(3); k++ {
			d = append(d, Pick(c, append(optWords, vals...)))
		}
		o.Multi = &execution.MultiOptionConfig{Default: d, Values: vals, AllowCustom: c.Chance(1, 3), Delimiter: Pick(c, []string{",", " ", "", "::"})}
	case execution.OptionTypeDate:
		o.Date = &execution.DateOptionConfig{Format: Pick(c, []string{"", "YYYY-MM-DD", "D MMM YYYY HH:mm"})}
	}
	return o, optTermOf(o)
}

func optTermOf(o execution.Option) string {
	var tterm string
	switch o.Type {
	case execution.OptionTypeBool:
		if o.Bool == nil {
			o.Bool = &execution.BoolOptionConfig{}
		}
		fc := map[execution.BoolOptionFormat]string{execution.BoolOptionFormatTrueFalse: "BTrueFalse", execution.BoolOptionFormatOneZero: "BOneZero", execution.BoolOptionFormatYesNo: "BYesNo", execution.BoolOptionFormatCustom: "BCustom"}[o.Bool.Format]
		if fc == "" {
			fc = "BUnknown"
			if o.Bool.Format == "" {
				fc = "BEmpty"
			}
		}
		tterm = CApp("TBool", fc, CStr(o.Bool.TrueVal), CStr(o.Bool.FalseVal), CBool(o.Bool.Default))
	case execution.OptionTypeString:
		tterm = CApp("TString", CStr(o.String.Default), CBool(o.String.TrimSpaces))
	case execution.OptionTypeSelect:
		tterm = CApp("TSelect", CStr(o.Select.Default), CListStr(o.Select.Values), CBool(o.Select.AllowCustom))
	case execution.OptionTypeMulti:
		tterm = CApp("TMulti", CListStr(o.Multi.Default), CListStr(o.Multi.Values), CBool(o.Multi.AllowCustom), CStr(o.Multi.Delimiter))
	case execution.OptionTypeDate:
		tterm = "TDate"
	}
	return CApp("mkOpt", CStr(o.Name), CBool(o.Required), tterm)
}

// satisfyingValue draws a value the option accepts (when there is one).
func satisfyingValue(c *PRNG, o execution.Option) interface{} {
	switch o.Type {
	case execution.OptionTypeBool:
		return c.Bool()
	case execution.OptionTypeString:
		return Pick(c, []string{"prod", "a b", " spaced "})
	case execution.OptionTypeSelect:
		if len(o.Select.Values) > 0 {
			return Pick(c, o.Select.Values)
		}
		return "custom"
	case execution.OptionTypeMulti:
		var l []interface{}
		for _, v := range o.Multi.Values {
			if v != "" && c.Bool() {
				l = append(l, v)
			}
		}
		if l == nil {
			l = []interface{}{}
			for _, v := range o.Multi.Values {
				if v != "" {
					l = append(l, v)
					break
				}
			}
		}
		return l
	default:
		return Pick(c, []string{"2021-02-09T04:06:13Z", "2021-02-09T04:06:13+08:00"})
	}
}

func runOptions(ctx *RunCtx) *Result {
	res := NewResult()
	p := NewPRNG(ctx.Seed)
	sc := NewSimContext()
	mut := mutation.NewMutator(sc)
	for i := 0; i < ctx.N; i++ {
		c := p.Fork()
		js := map[string]interface{}{}
		hit := func(sig, what string) { res.Hits = append(res.Hits, MonitorHit{"C18", sig, what, js}) }
		kind := c.Intn(10)
		if kind >= 7 {
			runAdmitCase(c, res, sc, mut)
			continue
		}
		if kind < 4 {
			// ---- option evaluation ----
			o, tterm := genOption(c, "opt")
			v := genOptValue(c, o.Type)
			out, err := options.EvaluateOption(v, o, field.NewPath("opt"))
			dflt, derr := options.EvaluateOptionDefault(o)
			dterm := "ErrInvalid"
			if derr == nil {
				dterm = CApp("Ok", CStr(dflt))
			}
			// date oracle for this value
			dates := "[]"
			if s, ok := v.(string); ok && o.Type == execution.OptionTypeDate && s != "" {
				if t, perr := time.Parse(time.RFC3339, s); perr == nil {
					f, ferr := options.FormatAsMoment(t, o.Date.Format)
					if ferr == nil {
						dates = CList([]string{CPair(CStr(s), "(Some "+CStr(f)+")")})
					}
				} else {
					dates = CList([]string{CPair(CStr(s), "None")})
				}
			}
			term := CApp("OEval", dates, coqVal(v), tterm, eresOf(out, err), dterm)
			js["option"], js["value"], js["out"], js["err"] = o, v, out, fmt.Sprint(err)
			res.Distribution["eval-"+string(o.Type)]++
			if err != nil {
				res.Distribution["eval-error-"+string(err.Type)]++
			}
			res.Add(term, js, fmt.Sprintf("e|%v|%v|%v", o, v, o.Required), err == nil)
			// monitor: constraints and default agreement, straight from the property
			if err == nil {
				switch o.Type {
				case execution.OptionTypeString:
					if o.Required && out == "" {
						hit("C18/required-option-empty", "a required string option evaluated to the empty string")
					}
					if o.String.TrimSpaces && out != strings.TrimSpace(out) {
						hit("C18/not-trimmed", fmt.Sprintf("trimSpaces but value %q", out))
					}
				case execution.OptionTypeSelect:
					if o.Required && out == "" {
						hit("C18/required-option-empty", "a required select option evaluated to the empty string")
					}
					if out != "" && !o.Select.AllowCustom {
						ok := false
						for _, a := range o.Select.Values {
							ok = ok || a == out
						}
						if !ok {
							hit("C18/value-not-allowed", fmt.Sprintf("select value %q not among %v", out, o.Select.Values))
						}
					}
				case execution.OptionTypeMulti:
					if o.Required && out == "" && o.Multi.Delimiter != "" {
						hit("C18/required-option-empty", "a required multi option evaluated to the empty string")
					}
				}
				if v == nil && derr == nil && out != dflt {
					hit("C18/default-disagrees", fmt.Sprintf("no value given: evaluated %q but the JobConfig default renders %q", out, dflt))
				}
			}
			continue
		}
		// ---- substitution: maps in priority order, reserved prefixes ----
		names := []string{"option.a", "option.b", "job.name", "task.index_num", "x", "option.long_name", "jobconfig.name"}
		var maps []map[string]string
		for k := 0; k < 1+c.Intn(3); k++ {
			m := map[string]string{}
			for n := 0; n < c.Intn(4); n++ {
				val := Pick(c, []string{"v1", "", "a b", "X", "2", "${option.b}", "${x}", "}", "$"})
				if c.Chance(2, 3) {
					val = Pick(c, []string{"v1", "", "a b", "X", "2"})
				}
				m[Pick(c, names)] = val
			}
			if c.Chance(1, 4) { // a value that mentions another variable of the same map
				a, b := Pick(c, names), Pick(c, names)
				if a != b {
					m[a] = "${" + b + "}"
					if _, ok := m[b]; !ok {
						m[b] = Pick(c, []string{"v1", "X", ""})
					}
				}
			}
			maps = append(maps, m)
		}
		toks := []string{}
		for k := 0; k < 1+c.Intn(6); k++ {
			switch c.Intn(5) {
			case 0, 1:
				toks = append(toks, "${"+Pick(c, names)+"}")
			case 2:
				toks = append(toks, Pick(c, []string{"${option.unknown}", "${job.other}", "${task.}", "${option.a", "${unknown}", "${task.x.y}", "$", "{}", "${jobconfig.}x}", "${option.dry-run}", "${task.index_matrix.target-env}", "${job.un known}", "${option.a/b}"}))
			default:
				toks = append(toks, Pick(c, []string{"echo ", "-", " ", "abc", ":", "/"}))
			}
		}
		target := strings.Join(toks, "")
		prefixes := []string{"jobconfig.", "job.", "task.", "option."}
		out := options.SubstituteVariableMaps(target, maps, prefixes)
		var mterms []string
		for _, m := range maps {
			var ks []string
			for k := range m {
				ks = append(ks, k)
			}
			sort.Strings(ks)
			// shuffle: the model sorts the keys itself
			for a := len(ks) - 1; a > 0; a-- {
				b := c.Intn(a + 1)
				ks[a], ks[b] = ks[b], ks[a]
			}
			var kv []string
			for _, k := range ks {
				kv = append(kv, CPair(CStr(k), CStr(m[k])))
			}
			mterms = append(mterms, CList(kv))
		}
		term := CApp("OSubst", CStr(target), CList(mterms), CListStr(prefixes), CStr(out))
		js["target"], js["maps"], js["out"] = target, maps, out
		res.Distribution["subst"]++
		res.Add(term, js, "s|"+target+fmt.Sprint(maps), strings.Contains(target, "${"))
		// determinism: the same call, and the same Pod, 20 times
		for r := 0; r < 20; r++ {
			if again := options.SubstituteVariableMaps(target, maps, prefixes); again != out {
				hit("C18/substitution-nondeterministic", fmt.Sprintf("SubstituteVariableMaps(%q) gave %q and %q", target, out, again))
				break
			}
		}
		rj := &execution.Job{ObjectMeta: metav1.ObjectMeta{Namespace: "ns", Name: "j", UID: "u"}}
		if len(maps) > 0 {
			rj.Spec.Substitutions = maps[0]
		}
		rj.Spec.Template = &execution.JobTemplate{TaskTemplate: execution.TaskTemplate{Pod: &execution.PodTemplateSpec{
			Spec: corev1.PodSpec{Containers: []corev1.Container{{Name: "c", Image: "img", Args: []string{target}}}}}}}
		tmpl := rj.Spec.Template.TaskTemplate.Pod.ConvertToCoreSpec()
		first := ""
		for r := 0; r < 20; r++ {
			pod, err := podtaskexecutor.NewPod(rj, tmpl, tasks.TaskIndex{Parallel: parallel.GetDefaultIndex()})
			if err != nil {
				panic(err)
			}
			if r == 0 {
				first = pod.Spec.Containers[0].Args[0]
			} else if pod.Spec.Containers[0].Args[0] != first {
				hit("C18/substitution-nondeterministic", fmt.Sprintf("NewPod args for %q: %q and %q", target, first, pod.Spec.Containers[0].Args[0]))
				break
			}
		}
		// semantics on plain templates: values without variable syntax
		plain := true
		for _, m := range maps {
			for _, v := range m {
				if strings.ContainsAny(v, "${}") {
					plain = false
				}
			}
		}
		if plain {
			want := ""
			for _, t := range toks {
				if strings.HasPrefix(t, "${") && strings.HasSuffix(t, "}") && !strings.ContainsAny(t[2:len(t)-1], "${}") && len(t) > 3 {
					name := t[2 : len(t)-1]
					found := false
					for _, m := range maps { // the first map that defines it wins (it is substituted first)
						if v, ok := m[name]; ok {
							want += v
							found = true
							break
						}
					}
					if !found {
						reserved := false
						for _, p := range prefixes {
							if strings.HasPrefix(name, p) && len(name) > len(p) {
								reserved = true
							}
						}
						if !reserved {
							want += t
						}
					}
				} else {
					want += t
				}
			}
			// only judge templates whose literal pieces cannot combine into variable syntax
			if !strings.Contains(strings.Join(toks, "\x00"), "$\x00") && !strings.Contains(target, "${option.a$") && want != out {
				if ok := plainTemplate(toks); ok {
					hit("C18/template-semantics", fmt.Sprintf("template %q with %v rendered %q, expected %q", target, maps, out, want))
				}
			}
		}
	}
	return res
}

// plainTemplate: every token is a literal without '$', '{', '}' or a well-formed ${name}.
func plainTemplate(toks []string) bool {
	for _, t := range toks {
		if strings.HasPrefix(t, "${") && strings.HasSuffix(t, "}") && len(t) > 3 && !strings.ContainsAny(t[2:len(t)-1], "${}") {
			continue
		}
		if strings.ContainsAny(t, "${}") {
			return false
		}
	}
	return true
}

func kvTerm(m map[string]string) string {
	var ks []string
	for k := range m {
		ks = append(ks, k)
	}
	sort.Strings(ks)
	var kv []string
	for _, k := range ks {
		kv = append(kv, CPair(CStr(k), CStr(m[k])))
	}
	return CList(kv)
}

// runAdmitCase: a JobConfig with several options; a Job admitted against it (by configName,
// or created from it as the cron controller does) through Mutator.MutateCreateJob; then the
// Pod of its first task.  Observed: spec.substitutions and the rendered args.
func runAdmitCase(c *PRNG, res *Result, sc *SimContext, mut *mutation.Mutator) {
	js := map[string]interface{}{}
	hit := func(sig, what string) { res.Hits = append(res.Hits, MonitorHit{"C18", sig, what, js}) }
	optNames := []string{"a", "b", "long_name", "x"}
	nopt := c.Intn(4)
	rjc := &execution.JobConfig{ObjectMeta: metav1.ObjectMeta{Namespace: "ns", Name: Pick(c, []string{"jc", "nightly"}), UID: "jc-uid"}}
	var optTerms, dateTerms []string
	values := map[string]interface{}{}
	var valTerms []string
	if nopt > 0 {
		rjc.Spec.Option = &execution.OptionSpec{}
	}
	for k := 0; k < nopt; k++ {
		o, _ := genOption(c, optNames[k])
		// mostly satisfiable options, so that many Jobs are admitted
		if c.Chance(2, 3) {
			o.Required = false
			if o.Bool != nil && !o.Bool.Format.IsValid() {
				o.Bool.Format = execution.BoolOptionFormatTrueFalse
			}
		}
		rjc.Spec.Option.Options = append(rjc.Spec.Option.Options, o)
		optTerms = append(optTerms, optTermOf(o))
		if c.Chance(1, 2) {
			v := genOptValue(c, o.Type)
			if c.Chance(1, 2) {
				v = satisfyingValue(c, o)
			}
			values[o.Name] = v
			valTerms = append(valTerms, CPair(CStr(o.Name), coqVal(v)))
			if s, ok := v.(string); ok && o.Type == execution.OptionTypeDate && s != "" {
				key := o.Name + "|" + s
				if t, perr := time.Parse(time.RFC3339, s); perr == nil {
					if f, ferr := options.FormatAsMoment(t, o.Date.Format); ferr == nil {
						dateTerms = append(dateTerms, CPair(CStr(key), "(Some "+CStr(f)+")"))
					}
				} else {
					dateTerms = append(dateTerms, CPair(CStr(key), "None"))
				}
			}
		}
	}
	if c.Chance(1, 6) { // a value for an option that is not declared
		values["ghost"] = "boo"
		valTerms = append(valTerms, CPair(CStr("ghost"), coqVal("boo")))
	}
	// the template: args mention options, contexts and unknown names
	var targets []string
	pool := []string{"${option.a}", "${option.b}", "${option.long_name}", "${option.x}", "${option.ghost}", "${job.name}", "${job.type}",
		"${jobconfig.name}", "${jobconfig.uid}", "${task.retry_index}", "${task.index_num}", "${job.max_attempts}", "${other.var}", "${HOME}", "$(date)", "-", "echo ", "${task.nope}", "${option.dry-run}", "${task.index_matrix.target-env}"}
	for k := 0; k < 1+c.Intn(3); k++ {
		t := ""
		for m := 0; m < 1+c.Intn(4); m++ {
			t += Pick(c, pool)
		}
		targets = append(targets, t)
	}
	var maxAttempts *int64
	if c.Bool() {
		m := int64(1 + c.Intn(3))
		maxAttempts = &m
	}
	rjc.Spec.Template.Spec = execution.JobTemplate{MaxAttempts: maxAttempts, TaskTemplate: execution.TaskTemplate{Pod: &execution.PodTemplateSpec{
		Spec: corev1.PodSpec{Containers: []corev1.Container{{Name: "c", Image: "img", Args: targets}}}}}}
	sc.informers.JobConfigs.Set(rjc)
	defer sc.informers.JobConfigs.Remove("ns/" + rjc.Name)

	explicit := map[string]string{}
	for k := 0; k < c.Intn(3); k++ {
		explicit[Pick(c, []string{"option.a", "option.b", "job.name", "jobconfig.name", "task.retry_index", "other.var", "option.ghost"})] = Pick(c, []string{"E1", "", "${option.b}", "e 2"})
	}
	scheduled := c.Chance(1, 4)
	var rj *execution.Job
	jtype := execution.JobTypeAdhoc
	if scheduled {
		jtype = execution.JobTypeScheduled
		var err error
		rj, err = jobconfigutil.NewJobFromJobConfig(rjc, jtype, time.Unix(1650000000, 0))
		if err != nil {
			// defaults cannot be rendered (an invalid bool format): no Job is created
			js["newjob_err"] = err.Error()
			term := CApp("OAdmit", CApp("mkAdmit", CList(dateTerms), CList(optTerms), "[]", "[]", "true",
				CPair(CStr(rjc.Name), CStr(string(rjc.UID))), CPair(CPair(CPair(CStr(""), CStr("")), CStr(string(jtype))), "None"), "[]", CListStr(targets), "None"))
			res.Count("admit-newjob-error")
			res.Add(term, js, fmt.Sprint("n|", optTerms), false)
			return
		}
		values = map[string]interface{}{}
		valTerms = nil
		explicit = map[string]string{}
	} else {
		rj = &execution.Job{ObjectMeta: metav1.ObjectMeta{Namespace: "ns", Name: "adhoc-job"}}
		rj.Spec.ConfigName = rjc.Name
		rj.Spec.Type = jtype
		if len(explicit) > 0 {
			rj.Spec.Substitutions = explicit
		}
		if len(values) > 0 {
			b, _ := json.Marshal(values)
			rj.Spec.OptionValues = string(b)
		}
	}
	rj.UID = "job-uid"
	result := mut.MutateCreateJob(rj)
	js["jobconfig_options"], js["values"], js["explicit"], js["scheduled"], js["targets"] = rjc.Spec.Option, values, explicit, scheduled, targets
	outTerm := "None"
	admitted := len(result.Errors) == 0
	taskv := map[string]string{}
	if admitted {
		subs := rj.Spec.Substitutions
		tmpl := rj.Spec.Template.TaskTemplate.Pod.ConvertToCoreSpec()
		ti := tasks.TaskIndex{Retry: int64(c.Intn(2)), Parallel: parallel.GetDefaultIndex()}
		// "the same every time for the same Job and index": the reference rendering comes from a
		// private copy of the Job; the Job object itself then creates a task of another retry
		// first (the controller creates all tasks of a Job from one cached object), then this
		// index five times; the Job's own template must come out of it as it went in
		pristine := rj.DeepCopy()
		ref, err := podtaskexecutor.NewPod(pristine, pristine.Spec.Template.TaskTemplate.Pod.ConvertToCoreSpec(), ti)
		if err != nil {
			panic(err)
		}
		rendered := ref.Spec.Containers[0].Args
		taskv = variablecontext.ContextProvider.MakeVariablesFromTask(variablecontext.TaskSpec{Name: ref.Name, Namespace: ref.Namespace, RetryIndex: ti.Retry, ParallelIndex: ti.Parallel})
		tmplBefore := fmt.Sprint(rj.Spec.Template.TaskTemplate.Pod.Spec.Containers[0].Args)
		other := tasks.TaskIndex{Retry: ti.Retry + 1, Parallel: parallel.GetDefaultIndex()}
		if _, err := podtaskexecutor.NewPod(rj, rj.Spec.Template.TaskTemplate.Pod.ConvertToCoreSpec(), other); err != nil {
			panic(err)
		}
		for r := 0; r < 5; r++ {
			pod, err := podtaskexecutor.NewPod(rj, tmpl, ti)
			if err != nil {
				panic(err)
			}
			if fmt.Sprint(rendered) != fmt.Sprint(pod.Spec.Containers[0].Args) {
				hit("C18/substitution-nondeterministic", fmt.Sprintf("NewPod args for retry %d: %q from a fresh copy of the Job, %q after a task of retry %d was created from the same Job object", ti.Retry, rendered, pod.Spec.Containers[0].Args, other.Retry))
				break
			}
		}
		if after := fmt.Sprint(rj.Spec.Template.TaskTemplate.Pod.Spec.Containers[0].Args); after != tmplBefore {
			hit("C18/task-creation-rewrites-job-template", fmt.Sprintf("the Job's template args were %s and are %s after creating tasks", tmplBefore, after))
		}
		js["substitutions"], js["rendered"] = subs, rendered
		outTerm = "(Some " + CPair(kvTerm(subs), CListStr(rendered)) + ")"
		// monitor: precedence, straight from the property, on templates that are a single variable
		for k, o := range optionsOf(rjc) {
			_ = k
			name := "option." + o.Name
			want, src := "", ""
			if v, ok := explicit[name]; ok && !scheduled {
				want, src = v, "explicit substitution"
			} else if v, ok := values[o.Name]; ok && v != nil {
				ev, err := options.EvaluateOption(v, o, field.NewPath("x"))
				if err != nil {
					hit("C18/admitted-with-invalid-option", fmt.Sprintf("option %s=%v is invalid (%v) but the Job was admitted", o.Name, v, err))
					continue
				}
				want, src = ev, "submitted option value"
			} else {
				d, err := options.EvaluateOptionDefault(o)
				if err != nil {
					continue
				}
				want, src = d, "JobConfig default"
			}
			if got := subs[name]; got != want {
				hit("C18/precedence", fmt.Sprintf("%s: stored %q, the %s is %q", name, got, src, want))
			}
		}
		if v, ok := explicit["job.name"]; ok && !scheduled {
			for i, t := range targets {
				if t == "${job.name}" && rendered[i] != v && !strings.Contains(v, "${") {
					hit("C18/precedence", fmt.Sprintf("explicit job.name=%q but rendered %q", v, rendered[i]))
				}
			}
		}
		for i, t := range targets {
			if (t == "${option.ghost}" || t == "${task.nope}" || t == "${option.dry-run}" || t == "${task.index_matrix.target-env}") && rendered[i] != "" {
				if _, ok := explicit["option.ghost"]; !ok || t != "${option.ghost}" {
					hit("C18/reserved-unknown-not-blank", fmt.Sprintf("%s rendered %q", t, rendered[i]))
				}
			}
			if (t == "${other.var}" || t == "${HOME}" || t == "$(date)") && rendered[i] != t {
				if _, ok := explicit["other.var"]; !ok || t != "${other.var}" {
					hit("C18/other-text-touched", fmt.Sprintf("%s rendered %q", t, rendered[i]))
				}
			}
		}
	} else {
		js["errors"] = fmt.Sprint(result.Errors)
	}
	res.Distribution[fmt.Sprintf("admit-%v-sched-%v", admitted, scheduled)]++
	jobTerm := CPair(CPair(CPair(CStr(rj.Name), CStr(string(rj.UID))), CStr(string(jtype))), COptZ(maxAttempts))
	term := CApp("OAdmit", CApp("mkAdmit", CList(dateTerms), CList(optTerms), CList(valTerms), kvTerm(explicit), CBool(scheduled),
		CPair(CStr(rjc.Name), CStr(string(rjc.UID))), jobTerm, kvTerm(taskv), CListStr(targets), outTerm))
	res.Add(term, js, fmt.Sprint("a|", optTerms, valTerms, explicit, targets, scheduled), admitted && nopt > 0)
}

func optionsOf(rjc *execution.JobConfig) []execution.Option {
	if rjc.Spec.Option == nil {
		return nil
	}
	return rjc.Spec.Option.Options
}
