package main

import (
	"bytes"
	"encoding/json"
	"fmt"
	"sort"
	"strings"

	jsonpatch "github.com/evanphx/json-patch"

	configv1alpha1 "github.com/furiko-io/furiko/apis/config/v1alpha1"
	"github.com/furiko-io/furiko/pkg/utils/cmp"
	"k8s.io/utils/pointer"
)

// Family "patch" (C16, the patch-faithfulness clause): cmp.CreateJSONPatch - the function the
// mutating webhooks compute their response patch with - on (a) the typed before/after objects
// of the mutate stream's admission requests (the very pairs Webhook.Handle diffs) and (b)
// random documents and random edits of them (every JSON kind, null members, kind changes,
// scalar arrays, arrays of flat objects, nested arrays), against Admission/Patch.v. The
// monitor applies the real patch to the real "before" with evanphx/json-patch, the API
// server's library, and compares with "after".

func init() {
	register(&Family{Name: "patch", Run: runPatch, CheckModule: "Cases.PatchCheck", CaseOK: "patch_ok"})
}

// set by the patch family while it drives the mutate generators
var patchCapture func(before, after interface{}, patch []byte)

type jsonNonInt struct{}

func decodeDoc(b []byte) interface{} {
	d := json.NewDecoder(bytes.NewReader(b))
	d.UseNumber()
	var v interface{}
	if err := d.Decode(&v); err != nil {
		panic(err)
	}
	return v
}

// jsonTerm prints a decoded document as a Coq term of Admission.Patch.json. Object members are
// listed in an order drawn from the PRNG (the model must not depend on it).
func jsonTerm(c *PRNG, v interface{}) string {
	switch x := v.(type) {
	case nil:
		return "JNull"
	case bool:
		return "(JBool " + CBool(x) + ")"
	case json.Number:
		n, err := x.Int64()
		if err != nil || n > 1<<53 || n < -(1<<53) {
			panic(jsonNonInt{})
		}
		return "(JNum " + CZ(n) + ")"
	case float64:
		if x != float64(int64(x)) {
			panic(jsonNonInt{})
		}
		return "(JNum " + CZ(int64(x)) + ")"
	case int:
		return "(JNum " + CZ(int64(x)) + ")"
	case string:
		return "(JStr " + CStr(x) + ")"
	case []interface{}:
		el := make([]string, len(x))
		for i := range x {
			el[i] = jsonTerm(c, x[i])
		}
		return "(JArr " + CList(el) + ")"
	case map[string]interface{}:
		keys := make([]string, 0, len(x))
		for k := range x {
			keys = append(keys, k)
		}
		sort.Strings(keys)
		for i := len(keys) - 1; i > 0; i-- {
			j := c.Intn(i + 1)
			keys[i], keys[j] = keys[j], keys[i]
		}
		el := make([]string, len(keys))
		for i, k := range keys {
			el[i] = CPair(CStr(k), jsonTerm(c, x[k]))
		}
		return "(JObj " + CList(el) + ")"
	}
	panic(fmt.Sprintf("jsonTerm: %T", v))
}

var patchKeys = []string{"a", "b", "c", "name", "spec", "x/y", "t~0", "~", "0", "1", "", "labels", "k8s.io/app"}

func genScalar(c *PRNG) interface{} {
	switch c.Intn(7) {
	case 0:
		return nil
	case 1:
		return c.Bool()
	case 2:
		return int(c.Range(-3, 6))
	case 3:
		return Pick(c, []int{0, 1, 1 << 40, -(1 << 31)})
	default:
		return Pick(c, []string{"", "a", "b", "c", "d", "x y", "~1", "/", "0"})
	}
}

func genFlatObj(c *PRNG) map[string]interface{} {
	m := map[string]interface{}{}
	for n := c.Intn(4); n > 0; n-- {
		m[Pick(c, patchKeys)] = genScalar(c)
	}
	return m
}

func genJSONDoc(c *PRNG, depth int) interface{} {
	r := c.Intn(10)
	if depth <= 0 {
		r = c.Intn(5)
	}
	switch {
	case r < 4:
		return genScalar(c)
	case r < 5:
		// scalar array (edit distance), many repeated values
		n := c.Intn(6)
		l := make([]interface{}, n)
		for i := range l {
			l[i] = Pick(c, []interface{}{"a", "b", "c", "a", 1, 2, true})
		}
		return l
	case r < 6:
		// array of flat objects (simple by isSimpleArray), sometimes mixed with scalars
		n := c.Intn(4)
		l := make([]interface{}, n)
		for i := range l {
			if c.Chance(1, 5) {
				l[i] = genScalar(c)
				if l[i] == nil {
					l[i] = "s"
				}
			} else {
				l[i] = genFlatObj(c)
			}
		}
		return l
	case r < 7:
		// general array
		n := c.Intn(4)
		l := make([]interface{}, n)
		for i := range l {
			l[i] = genJSONDoc(c, depth-1)
		}
		return l
	default:
		m := map[string]interface{}{}
		for n := c.Intn(5); n > 0; n-- {
			putMember(c, m, Pick(c, patchKeys), depth-1)
		}
		return m
	}
}

// putMember adds a member; the empty member name only ever holds a scalar: below an empty
// name jsonpatch's makePath drops a separator ("/a/" + "x" = "/a/x"), a defect of the library
// that no furiko object can reach (its maps with free keys - labels, annotations, node
// selectors, substitutions - hold strings) and that the model states as
// go_path_text_empty_refuted.
func putMember(c *PRNG, m map[string]interface{}, k string, depth int) {
	if k == "" {
		m[k] = genScalar(c)
		return
	}
	m[k] = genJSONDoc(c, depth)
}

func cloneDoc(v interface{}) interface{} {
	b, _ := json.Marshal(v)
	var out interface{}
	_ = json.Unmarshal(b, &out)
	return normInts(out)
}

// normInts turns the float64 of encoding/json back into ints (all generated numbers are ints)
func normInts(v interface{}) interface{} {
	switch x := v.(type) {
	case float64:
		return int(x)
	case []interface{}:
		for i := range x {
			x[i] = normInts(x[i])
		}
	case map[string]interface{}:
		for k := range x {
			x[k] = normInts(x[k])
		}
	}
	return v
}

// editDoc derives the "after" document by random edits at random depth
func editDoc(c *PRNG, v interface{}, depth int) interface{} {
	if c.Chance(1, 6) {
		return genJSONDoc(c, depth) // replaced wholesale, possibly by another kind
	}
	switch x := v.(type) {
	case map[string]interface{}:
		for _, k := range sortedDocKeys(x) {
			switch c.Intn(6) {
			case 0:
				delete(x, k)
			case 1, 2:
				if k == "" {
					x[k] = genScalar(c)
				} else {
					x[k] = editDoc(c, x[k], depth-1)
				}
			case 3:
				x[k] = nil
			}
		}
		for n := c.Intn(3); n > 0; n-- {
			putMember(c, x, Pick(c, patchKeys), depth-1)
		}
		return x
	case []interface{}:
		var out []interface{}
		for _, e := range x {
			switch c.Intn(7) {
			case 0: // dropped
			case 1:
				out = append(out, editDoc(c, e, depth-1))
			case 2:
				out = append(out, e, cloneDoc(Pick(c, x)))
			default:
				out = append(out, e)
			}
		}
		if c.Chance(1, 3) {
			if len(x) > 0 && c.Bool() {
				out = append(out, cloneDoc(Pick(c, x)))
			} else {
				out = append(out, genJSONDoc(c, depth-1))
			}
		}
		if c.Chance(1, 8) && len(out) > 1 {
			out[0], out[len(out)-1] = out[len(out)-1], out[0]
		}
		if out == nil {
			out = []interface{}{}
		}
		return out
	default:
		if c.Chance(1, 2) {
			return genScalar(c)
		}
		return v
	}
}

func sortedDocKeys(m map[string]interface{}) []string {
	ks := make([]string, 0, len(m))
	for k := range m {
		ks = append(ks, k)
	}
	sort.Strings(ks)
	return ks
}

type realOp struct {
	Op    string          `json:"op"`
	Path  string          `json:"path"`
	Value json.RawMessage `json:"value,omitempty"`
}

func patchCase(c *PRNG, res *Result, origin string, before, after interface{}, patch []byte) {
	js := map[string]interface{}{"origin": origin}
	hit := func(sig, what string) { res.Hits = append(res.Hits, MonitorHit{"C16", sig, what, js}) }
	rawA, err1 := json.Marshal(before)
	rawB, err2 := json.Marshal(after)
	if err1 != nil || err2 != nil {
		panic(fmt.Sprint(err1, err2))
	}
	if patch == nil {
		p, err := cmp.CreateJSONPatch(before, after)
		if err != nil {
			panic(err)
		}
		patch = p
	}
	js["before"], js["after"], js["patch"] = string(rawA), string(rawB), string(patch)
	var ops []realOp
	if len(patch) > 0 {
		if err := json.Unmarshal(patch, &ops); err != nil {
			panic(err)
		}
	}
	// the implementation against the property: the patch applied to "before" is "after"
	if len(patch) > 0 {
		dp, err := jsonpatch.DecodePatch(patch)
		if err != nil {
			hit("C16/patch-does-not-apply", fmt.Sprintf("patch %s does not decode: %v", patch, err))
		} else if got, err := dp.Apply(rawA); err != nil {
			hit("C16/patch-does-not-apply", fmt.Sprintf("patch %s on %s: %v", patch, rawA, err))
		} else if !jsonEqual(got, rawB) {
			hit("C16/patch-unfaithful", fmt.Sprintf("patch %s on %s gives %s, defaulted object %s", patch, rawA, got, rawB))
		}
	} else if !jsonEqual(rawA, rawB) {
		hit("C16/patch-unfaithful", fmt.Sprintf("no patch for %s -> %s", rawA, rawB))
	}
	var term string
	func() {
		defer func() {
			if r := recover(); r != nil {
				if _, ok := r.(jsonNonInt); ok {
					term = ""
					return
				}
				panic(r)
			}
		}()
		opTerms := make([]string, len(ops))
		for i, o := range ops {
			val := "JNull"
			if len(o.Value) > 0 {
				val = jsonTerm(c, decodeDoc(o.Value))
			}
			opTerms[i] = CPair(CPair(CStr(o.Op), CStr(o.Path)), val)
		}
		term = CApp("mkPC", jsonTerm(c, decodeDoc(rawA)), jsonTerm(c, decodeDoc(rawB)), CList(opTerms))
	}()
	if term == "" {
		res.Count("skipped-non-integer-number")
		return
	}
	kinds := map[string]int{}
	for _, o := range ops {
		kinds[o.Op]++
		if strings.Contains(o.Path, "~") {
			res.Count("op-with-escaped-path")
		}
	}
	res.Count(origin)
	res.Count(fmt.Sprintf("ops-%d", minInt(len(ops), 8)))
	for k, n := range kinds {
		res.Distribution["op-"+k] += n
	}
	fp := fmt.Sprintf("%s|%d|%v", origin, len(ops), kinds)
	res.Add(term, js, fp, len(ops) > 0)
}

func minInt(a, b int) int {
	if a < b {
		return a
	}
	return b
}

func runPatch(ctx *RunCtx) *Result {
	res := NewResult()
	p := NewPRNG(ctx.Seed)
	for i := 0; i < ctx.N; i++ {
		c := p.Fork()
		if i%3 == 0 {
			// an admission request of the mutate stream: the typed before/after the webhook diffs
			// and the patch its Handle returned
			sc := NewSimContext()
			if c.Chance(1, 2) {
				sc.SetConfig(configv1alpha1.JobExecutionConfigName, &configv1alpha1.JobExecutionConfig{
					DefaultTTLSecondsAfterFinished: pointer.Int64(Pick(c, []int64{0, 120, 7200})),
					DefaultPendingTimeoutSeconds:   pointer.Int64(Pick(c, []int64{0, 30, 600}))})
			}
			scratch := NewResult()
			captured := false
			patchCapture = func(before, after interface{}, patch []byte) {
				if !captured {
					captured = true
					patchCase(c, res, "admission", before, after, patch)
				}
			}
			if c.Chance(3, 5) {
				mutJobCase(c, scratch, sc)
			} else {
				mutJobConfigCase(c, scratch, sc)
			}
			patchCapture = nil
			if captured {
				continue
			}
		}
		// documents are objects at the root, like every admission object (the API server's
		// patch library reads nothing else)
		m := map[string]interface{}{}
		for n := 1 + c.Intn(4); n > 0; n-- {
			putMember(c, m, Pick(c, patchKeys), 3)
		}
		a := cloneDoc(m)
		bm := cloneDoc(a).(map[string]interface{})
		for _, k := range sortedDocKeys(bm) {
			switch c.Intn(6) {
			case 0:
				delete(bm, k)
			case 1, 2, 3:
				if k == "" {
					bm[k] = genScalar(c)
				} else {
					bm[k] = editDoc(c, bm[k], 3)
				}
			case 4:
				bm[k] = nil
			}
		}
		for n := c.Intn(3); n > 0; n-- {
			putMember(c, bm, Pick(c, patchKeys), 2)
		}
		var b interface{} = bm
		patchCase(c, res, "random", a, b, nil)
	}
	return res
}
