package main

import (
	"context"
	"fmt"
	"reflect"
	"sort"
	"sync/atomic"
	"time"

	corev1 "k8s.io/api/core/v1"
	"k8s.io/apimachinery/pkg/runtime/schema"
	kubeinformers "k8s.io/client-go/informers"
	kubecore "k8s.io/client-go/informers/core"
	kubecorev1 "k8s.io/client-go/informers/core/v1"
	corelisters "k8s.io/client-go/listers/core/v1"
	"k8s.io/client-go/tools/cache"

	furikoinformers "github.com/furiko-io/furiko/pkg/generated/informers/externalversions"
	execinf "github.com/furiko-io/furiko/pkg/generated/informers/externalversions/execution"
	execinfv1 "github.com/furiko-io/furiko/pkg/generated/informers/externalversions/execution/v1alpha1"
	execlisters "github.com/furiko-io/furiko/pkg/generated/listers/execution/v1alpha1"
	"github.com/furiko-io/furiko/pkg/runtime/controllercontext"
)

// SimInformer is a synchronous, harness-driven cache.SharedIndexInformer: the cache
// (indexer) and every registered handler advance only when the harness says so.
// This is exactly what client-go guarantees and nothing more: per kind, the cache
// sees events in order; each handler sees the same events in order, on its own pace.
type SimInformer struct {
	kind     string
	indexer  cache.Indexer
	handlers []*simHandler
	unsynced int32 // atomic: 1 while the initial LIST is "still on its way" (start-up checks)
	removes  int
}

// SetSynced flips what HasSynced reports (read by controller goroutines in the start-up checks).
func (s *SimInformer) SetSynced(v bool) {
	if v {
		atomic.StoreInt32(&s.unsynced, 0)
	} else {
		atomic.StoreInt32(&s.unsynced, 1)
	}
}

// Clear empties the cache without notifications: the cache of a process that has just started.
func (s *SimInformer) Clear() {
	for _, o := range s.indexer.List() {
		_ = s.indexer.Delete(o)
	}
}

type simEvent struct {
	kind     byte // 'A', 'U', 'D'
	old, obj interface{}
}

type simHandler struct {
	h     cache.ResourceEventHandler
	queue []simEvent
}

func NewSimInformer(kind string) *SimInformer {
	return &SimInformer{
		kind:    kind,
		indexer: &sortedIndexer{cache.NewIndexer(cache.MetaNamespaceKeyFunc, cache.Indexers{cache.NamespaceIndex: cache.MetaNamespaceIndexFunc})},
	}
}

// sortedIndexer returns list results in key order. client-go returns them in Go map
// order; any order is legal, and a fixed one makes every run of a history the same run
// (the jobconfigcontroller writes the list order into status.activeJobs).
type sortedIndexer struct{ cache.Indexer }

func sortObjs(l []interface{}) []interface{} {
	sort.SliceStable(l, func(i, j int) bool {
		a, _ := cache.MetaNamespaceKeyFunc(l[i])
		b, _ := cache.MetaNamespaceKeyFunc(l[j])
		return a < b
	})
	return l
}
func (s *sortedIndexer) List() []interface{} { return sortObjs(s.Indexer.List()) }
func (s *sortedIndexer) Index(name string, obj interface{}) ([]interface{}, error) {
	l, err := s.Indexer.Index(name, obj)
	return sortObjs(l), err
}
func (s *sortedIndexer) ByIndex(name, v string) ([]interface{}, error) {
	l, err := s.Indexer.ByIndex(name, v)
	return sortObjs(l), err
}

// --- cache.SharedIndexInformer ---
func (s *SimInformer) AddEventHandler(h cache.ResourceEventHandler) {
	sh := &simHandler{h: h}
	// client-go replays the current cache content as Add notifications.
	for _, obj := range s.sortedList() {
		sh.queue = append(sh.queue, simEvent{kind: 'A', obj: obj})
	}
	s.handlers = append(s.handlers, sh)
}
func (s *SimInformer) AddEventHandlerWithResyncPeriod(h cache.ResourceEventHandler, _ time.Duration) {
	s.AddEventHandler(h)
}
func (s *SimInformer) GetStore() cache.Store                              { return s.indexer }
func (s *SimInformer) GetController() cache.Controller                    { return nil }
func (s *SimInformer) Run(stopCh <-chan struct{})                         {}
func (s *SimInformer) HasSynced() bool                                    { return atomic.LoadInt32(&s.unsynced) == 0 }
func (s *SimInformer) LastSyncResourceVersion() string                    { return "" }
func (s *SimInformer) SetWatchErrorHandler(cache.WatchErrorHandler) error { return nil }
func (s *SimInformer) AddIndexers(ix cache.Indexers) error                { return s.indexer.AddIndexers(ix) }
func (s *SimInformer) GetIndexer() cache.Indexer                          { return s.indexer }

func (s *SimInformer) sortedList() []interface{} {
	keys := s.indexer.ListKeys()
	sort.Strings(keys)
	out := make([]interface{}, 0, len(keys))
	for _, k := range keys {
		o, _, _ := s.indexer.GetByKey(k)
		out = append(out, o)
	}
	return out
}

// --- harness side ---

// Set makes obj the cached version (Add or Update) and queues the notification.
func (s *SimInformer) Set(obj interface{}) {
	key, _ := cache.MetaNamespaceKeyFunc(obj)
	old, exists, _ := s.indexer.GetByKey(key)
	if exists {
		_ = s.indexer.Update(obj)
		for _, h := range s.handlers {
			h.queue = append(h.queue, simEvent{kind: 'U', old: old, obj: obj})
		}
	} else {
		_ = s.indexer.Add(obj)
		for _, h := range s.handlers {
			h.queue = append(h.queue, simEvent{kind: 'A', obj: obj})
		}
	}
}

func (s *SimInformer) Remove(key string) bool {
	old, exists, _ := s.indexer.GetByKey(key)
	if !exists {
		return false
	}
	_ = s.indexer.Delete(old)
	// every other deletion (the first one included) reaches the handlers the way a deletion missed by a broken watch
	// does: as a cache.DeletedFinalStateUnknown tombstone around the last known object
	// (client-go's contract for OnDelete)
	s.removes++
	var ev interface{} = old
	if s.removes%2 == 1 {
		ev = cache.DeletedFinalStateUnknown{Key: key, Obj: old}
	}
	for _, h := range s.handlers {
		h.queue = append(h.queue, simEvent{kind: 'D', obj: ev})
	}
	return true
}

// Resync queues Update(obj, obj) for every cached object to every handler.
func (s *SimInformer) Resync() {
	for _, obj := range s.sortedList() {
		for _, h := range s.handlers {
			h.queue = append(h.queue, simEvent{kind: 'U', old: obj, obj: obj})
		}
	}
}

// Pending returns the number of undelivered notifications of handler i.
func (s *SimInformer) Pending(i int) int {
	if i >= len(s.handlers) {
		return 0
	}
	return len(s.handlers[i].queue)
}

// Deliver hands the next notification to handler i. Returns false if none.
func (s *SimInformer) Deliver(i int) bool {
	if i >= len(s.handlers) || len(s.handlers[i].queue) == 0 {
		return false
	}
	h := s.handlers[i]
	e := h.queue[0]
	h.queue = h.queue[1:]
	switch e.kind {
	case 'A':
		h.h.OnAdd(e.obj)
	case 'U':
		h.h.OnUpdate(e.old, e.obj)
	case 'D':
		h.h.OnDelete(e.obj)
	}
	return true
}

func (s *SimInformer) DeliverAll() {
	for i := range s.handlers {
		for s.Deliver(i) {
		}
	}
}

// --- factories ---

type SimInformers struct {
	Jobs       *SimInformer
	JobConfigs *SimInformer
	Pods       *SimInformer
}

func NewSimInformers() *SimInformers {
	return &SimInformers{Jobs: NewSimInformer("Job"), JobConfigs: NewSimInformer("JobConfig"), Pods: NewSimInformer("Pod")}
}

var _ controllercontext.Informers = (*SimInformers)(nil)

func (s *SimInformers) Start(ctx context.Context) error { return nil }
func (s *SimInformers) Kubernetes() kubeinformers.SharedInformerFactory {
	return &simKubeFactory{s: s}
}
func (s *SimInformers) Furiko() furikoinformers.SharedInformerFactory { return &simFurikoFactory{s: s} }

type simFurikoFactory struct {
	furikoinformers.SharedInformerFactory // nil: only Execution() is used by furiko
	s                                     *SimInformers
}

func (f *simFurikoFactory) Start(stopCh <-chan struct{}) {}
func (f *simFurikoFactory) WaitForCacheSync(stopCh <-chan struct{}) map[reflect.Type]bool {
	return map[reflect.Type]bool{}
}
func (f *simFurikoFactory) ForResource(schema.GroupVersionResource) (furikoinformers.GenericInformer, error) {
	return nil, fmt.Errorf("not supported by the simulation")
}
func (f *simFurikoFactory) Execution() execinf.Interface { return &simExecGroup{s: f.s} }

type simExecGroup struct{ s *SimInformers }

func (g *simExecGroup) V1alpha1() execinfv1.Interface { return &simExecV1{s: g.s} }

type simExecV1 struct{ s *SimInformers }

func (v *simExecV1) Jobs() execinfv1.JobInformer { return &simJobInformer{s: v.s.Jobs} }
func (v *simExecV1) JobConfigs() execinfv1.JobConfigInformer {
	return &simJobConfigInformer{s: v.s.JobConfigs}
}

type simJobInformer struct{ s *SimInformer }

func (i *simJobInformer) Informer() cache.SharedIndexInformer { return i.s }
func (i *simJobInformer) Lister() execlisters.JobLister       { return execlisters.NewJobLister(i.s.indexer) }

type simJobConfigInformer struct{ s *SimInformer }

func (i *simJobConfigInformer) Informer() cache.SharedIndexInformer { return i.s }
func (i *simJobConfigInformer) Lister() execlisters.JobConfigLister {
	return execlisters.NewJobConfigLister(i.s.indexer)
}

type simKubeFactory struct {
	kubeinformers.SharedInformerFactory // nil: only Core().V1().Pods() is used by furiko
	s                                   *SimInformers
}

func (f *simKubeFactory) Start(stopCh <-chan struct{}) {}
func (f *simKubeFactory) WaitForCacheSync(stopCh <-chan struct{}) map[reflect.Type]bool {
	return map[reflect.Type]bool{}
}
func (f *simKubeFactory) Core() kubecore.Interface { return &simCoreGroup{s: f.s} }

type simCoreGroup struct{ s *SimInformers }

func (g *simCoreGroup) V1() kubecorev1.Interface { return &simCoreV1{s: g.s} }

type simCoreV1 struct {
	kubecorev1.Interface // nil: only Pods() is used
	s                    *SimInformers
}

func (v *simCoreV1) Pods() kubecorev1.PodInformer { return &simPodInformer{s: v.s.Pods} }

type simPodInformer struct{ s *SimInformer }

func (i *simPodInformer) Informer() cache.SharedIndexInformer { return i.s }
func (i *simPodInformer) Lister() corelisters.PodLister       { return corelisters.NewPodLister(i.s.indexer) }

var _ = corev1.Pod{}
