package main

// One splitmix64 stream; every random choice of a run derives from it.
type PRNG struct{ s uint64 }

func NewPRNG(seed uint64) *PRNG {
	// scramble the seed so that consecutive seeds give unrelated streams
	z := (seed ^ 0xA5A5A5A5DEADBEEF) * 0xD6E8FEB86659FD93
	z = (z ^ (z >> 32)) * 0xBF58476D1CE4E5B9
	z ^= z >> 29
	return &PRNG{s: z}
}

func (p *PRNG) U64() uint64 {
	p.s += 0x9E3779B97F4A7C15
	z := p.s
	z = (z ^ (z >> 30)) * 0xBF58476D1CE4E5B9
	z = (z ^ (z >> 27)) * 0x94D049BB133111EB
	return z ^ (z >> 31)
}

// Intn returns a value in [0,n).
func (p *PRNG) Intn(n int) int {
	if n <= 0 {
		return 0
	}
	return int(p.U64() % uint64(n))
}

// Range returns a value in [lo,hi].
func (p *PRNG) Range(lo, hi int64) int64 {
	if hi <= lo {
		return lo
	}
	return lo + int64(p.U64()%uint64(hi-lo+1))
}

func (p *PRNG) Bool() bool { return p.U64()&1 == 1 }

// Chance returns true with probability num/den.
func (p *PRNG) Chance(num, den int) bool { return p.Intn(den) < num }

func Pick[T any](p *PRNG, xs []T) T { return xs[p.Intn(len(xs))] }

// Fork derives an independent stream (used per case so that a case replays alone).
func (p *PRNG) Fork() *PRNG { return &PRNG{s: p.U64()} }
