#!/bin/sh
# Regenerates go.mod/go.sum of the harness from /repo's (same requirement set and
# replace block, plus the furiko module itself replaced by /repo's working tree).
set -e
REPO=${REPO:-/repo}
cd "$(dirname "$0")"
{
  echo "module verifharness"
  sed -n '/^go /p' $REPO/go.mod
  echo "require github.com/furiko-io/furiko v0.0.0"
  echo "replace github.com/furiko-io/furiko => $REPO"
  sed -n '/^require (/,/^)/p;/^replace (/,/^)/p' $REPO/go.mod | sed 's,// indirect,,'
} > go.mod
cp $REPO/go.sum go.sum
