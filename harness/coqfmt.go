package main

import (
	"fmt"
	"strings"
)

// Coq literal printers. Everything the harness ships to the model goes through
// these, so the textual contract is in one place.

func CZ(z int64) string {
	if z < 0 {
		return fmt.Sprintf("(%d)%%Z", z)
	}
	return fmt.Sprintf("%d%%Z", z)
}

func CNat(n int) string { return fmt.Sprintf("%d%%nat", n) }

func CBool(b bool) string {
	if b {
		return "true"
	}
	return "false"
}

// CStr prints a Coq string literal; bytes outside printable ASCII are spliced in
// with String (ascii_of_nat n).
func CStr(s string) string {
	plain := true
	for i := 0; i < len(s); i++ {
		if s[i] < 32 || s[i] > 126 {
			plain = false
			break
		}
	}
	if plain {
		return "\"" + strings.ReplaceAll(s, "\"", "\"\"") + "\"%string"
	}
	var b strings.Builder
	closeN := 0
	for i := 0; i < len(s); i++ {
		fmt.Fprintf(&b, "(String (ascii_of_nat %d) ", s[i])
		closeN++
	}
	b.WriteString("EmptyString")
	b.WriteString(strings.Repeat(")", closeN))
	return b.String()
}

func COpt(present bool, v string) string {
	if !present {
		return "None"
	}
	return "(Some " + v + ")"
}

func COptZ(p *int64) string {
	if p == nil {
		return "None"
	}
	return "(Some " + CZ(*p) + ")"
}

func CList(items []string) string {
	if len(items) == 0 {
		return "[]"
	}
	return "[" + strings.Join(items, "; ") + "]"
}

func CListZ(zs []int64) string {
	it := make([]string, len(zs))
	for i, z := range zs {
		it[i] = CZ(z)
	}
	return CList(it)
}

func CListStr(ss []string) string {
	it := make([]string, len(ss))
	for i, s := range ss {
		it[i] = CStr(s)
	}
	return CList(it)
}

func CPair(a, b string) string { return "(" + a + ", " + b + ")" }

func CApp(f string, args ...string) string {
	return "(" + f + " " + strings.Join(args, " ") + ")"
}
