package main

import (
	"fmt"
	"time"

	"github.com/furiko-io/furiko/pkg/execution/controllers/croncontroller"
	"github.com/furiko-io/furiko/pkg/execution/util/jobconfig"
)

// Family "keys" (C02): JoinJobConfigKeyName / SplitJobConfigKeyName / GenerateName.

func init() {
	register(&Family{Name: "keys", Run: runKeys, CheckModule: "Cases.KeysCheck", CaseOK: "keys_ok"})
}

var keyAlphabet = []string{"a", "b", "job", "cfg", ".", "-", "0", "1", "9", "/", "ns", "x.y", "a-1", "-", ".."}

func genKeyName(p *PRNG) string {
	n := p.Intn(5)
	s := ""
	for i := 0; i < n; i++ {
		s += Pick(p, keyAlphabet)
	}
	return s
}

var unixLattice = []int64{0, 1, 9, 10, 59, 60, 1606987620, 1700000000, 253402300799, -1, -62135596800, 9223372036, 1 << 40}

func genUnix(p *PRNG) int64 {
	if p.Chance(1, 2) {
		return Pick(p, unixLattice)
	}
	return p.Range(-5, 4000000000)
}

func runKeys(ctx *RunCtx) *Result {
	res := NewResult()
	p := NewPRNG(ctx.Seed)
	names := map[string][2]interface{}{}
	for i := 0; i < ctx.N; i++ {
		c := p.Fork()
		switch c.Intn(4) {
		case 0: // join
			k, t := genKeyName(c), genUnix(c)
			out := croncontroller.JoinJobConfigKeyName(k, time.Unix(t, 0))
			res.Count("join")
			res.Add(CApp("KJoin", CStr(k), CZ(t), CStr(out)), map[string]interface{}{"op": "join", "key": k, "t": t, "out": out}, fmt.Sprintf("j|%s|%d", k, t), true)
			// monitor: round trip on the implementation
			n2, ts, err := croncontroller.SplitJobConfigKeyName(out)
			if err != nil || n2 != k || ts.Unix() != t {
				res.Hits = append(res.Hits, MonitorHit{"C02", "C02/key-roundtrip", fmt.Sprintf("split(join(%q,%d)) = (%q,%v,%v)", k, t, n2, ts.Unix(), err), map[string]interface{}{"key": k, "t": t}})
			}
		case 1, 2: // split of arbitrary / mostly well-formed strings
			var s string
			if c.Chance(2, 3) {
				s = croncontroller.JoinJobConfigKeyName(genKeyName(c), time.Unix(genUnix(c), 0))
				res.Count("split-wellformed")
			} else {
				s = genKeyName(c) + Pick(c, []string{"", ".", ".x", ".12x", ".-", ".+5", ".007", ".-0", ".99999999999999999999", ". 1"})
				res.Count("split-malformed")
			}
			name, ts, err := croncontroller.SplitJobConfigKeyName(s)
			ok := err == nil
			outc := "None"
			if ok {
				outc = "(Some " + CPair(CStr(name), CZ(ts.Unix())) + ")"
			}
			res.Add(CApp("KSplit", CStr(s), outc), map[string]interface{}{"op": "split", "in": s, "ok": ok, "name": name, "t": ts.Unix()}, "s|"+s, ok)
		case 3: // name
			n, t := genKeyName(c), genUnix(c)
			if t == -62135596800 { // zero time => time.Now(), not a function of the inputs
				t = 0
			}
			out := jobconfig.GenerateName(n, time.Unix(t, 0))
			res.Count("name")
			res.Add(CApp("KName", CStr(n), CZ(t), CStr(out)), map[string]interface{}{"op": "name", "name": n, "t": t, "out": out}, fmt.Sprintf("n|%s|%d", n, t), true)
			if t >= 0 {
				if prev, ok := names[out]; ok && (prev[0].(string) != n || prev[1].(int64) != t) {
					res.Hits = append(res.Hits, MonitorHit{"C02", "C02/name-collision", fmt.Sprintf("GenerateName(%q,%d) = GenerateName(%q,%d) = %q", n, t, prev[0], prev[1], out), map[string]interface{}{"name": n, "t": t}})
				}
				names[out] = [2]interface{}{n, t}
			}
		}
	}
	return res
}
