package main

import (
	"fmt"
	"time"

	execution "github.com/furiko-io/furiko/apis/execution/v1alpha1"

	clocktesting "k8s.io/utils/clock/testing"

	"github.com/furiko-io/furiko/pkg/execution/controllers/jobcontroller"
	jobutil "github.com/furiko-io/furiko/pkg/execution/util/job"
	"github.com/furiko-io/furiko/pkg/execution/util/parallel"
	"github.com/furiko-io/furiko/pkg/utils/ktime"
)

// Family "jobpure" (C10, C11, parts of C08/C09): the pure status functions of the
// job controller on generated (spec, stored refs, observed Pods, clock) tuples,
// against Job/Core.v.

func init() {
	register(&Family{Name: "jobpure", Run: runJobPure, CheckModule: "Cases.JobPureCheck", CaseOK: "jp_ok"})
}

func ip(v int64) *int64 { return &v }

type jobGen struct {
	p   *PRNG
	now int64
}

func (g *jobGen) genJob() *mJob {
	c := g.p
	m := &mJob{}
	switch c.Intn(6) {
	case 0, 1:
		m.Shape = "none"
	case 2, 3:
		m.Shape, m.Count = "count", int64(1+c.Intn(4))
	case 4:
		m.Shape, m.Count = "keys", int64(1+c.Intn(3))
	case 5:
		m.Shape = "matrix"
	}
	m.Strategy = Pick(c, []string{"", "All", "Any"})
	m.MaxAttempts = int64(1 + c.Intn(3))
	m.RetryDelay = Pick(c, []int64{0, 0, 5, 60})
	m.StartAfter = c.Chance(1, 8)
	m.Enqueue = c.Chance(1, 4)
	if c.Chance(1, 4) {
		m.Kill = ip(g.now + Pick(c, []int64{-100, -1, 0, 1, 100}))
	}
	m.AdmErr = c.Chance(1, 12)
	if c.Chance(1, 3) {
		m.TTL = ip(Pick(c, []int64{0, 10, 3600}))
	}
	if c.Chance(1, 3) {
		m.PendingTimeout = ip(Pick(c, []int64{0, 30, 900, -1}))
	}
	m.ForbidForce = c.Chance(1, 6)
	m.Finalizer = !c.Chance(1, 8)
	if c.Chance(1, 8) {
		m.Deletion = ip(g.now - int64(c.Intn(50)))
	}
	if !c.Chance(1, 8) {
		m.Start = ip(g.now - 500)
	}
	if m.AdmErr && c.Bool() {
		m.OldFinish = ip(g.now - 77)
	}
	m.init()
	return m
}

// genAttempts generates, for every index, a history of attempts with stored refs
// and (possibly) Pods.
func (g *jobGen) genAttempts(m *mJob) ([]mRef, []mPod) {
	c := g.p
	var refs []mRef
	var pods []mPod
	for ix, h := range m.Hashes {
		n := c.Intn(int(m.MaxAttempts) + 1)
		if c.Chance(1, 10) {
			n = int(m.MaxAttempts) + 1
		}
		t := g.now - 400 + int64(c.Intn(20))
		for r := 0; r < n; r++ {
			name := taskName(h, int64(r))
			created := t
			t += int64(c.Intn(3)) // equal creation seconds happen
			last := r == n-1
			outcome := Pick(c, []string{"failed", "failed", "succeeded", "killed", "lost", "oom"})
			if last {
				outcome = Pick(c, []string{"starting", "running", "succeeded", "failed", "killed", "lost", "killing", "oom", "starting", "running"})
			}
			ref := mRef{Name: name, Hash: h, Index: ix, Retry: int64(r), Created: created, Status: mStatus{State: "Starting"}}
			pod := mPod{Name: name, Hash: h, Index: ix, Retry: int64(r), Created: created, Controlled: true, Phase: "Pending"}
			havePod := true
			run := created + 1 + int64(c.Intn(5))
			fin := run + 1 + int64(c.Intn(100))
			switch outcome {
			case "starting":
				if c.Bool() {
					pod.Scheduled, pod.StatusStart = true, ip(created+1)
				}
			case "running":
				pod.Phase, pod.Scheduled, pod.StatusStart, pod.ContStart = "Running", true, ip(created+1), ip(run)
				ref.Running, ref.Status.State = ip(run), "Running"
			case "succeeded", "failed", "oom":
				pod.Phase = map[string]string{"succeeded": "Succeeded", "failed": "Failed", "oom": "Failed"}[outcome]
				pod.OOM = outcome == "oom"
				pod.PrevOOM = !pod.OOM && c.Chance(1, 4)
				pod.Scheduled, pod.StatusStart, pod.ContStart, pod.ContFinish = true, ip(created+1), ip(run), ip(fin)
				if c.Chance(1, 6) {
					pod.ContStart, pod.ContFinish = nil, nil // evicted before the container ran
				}
				ref.Running, ref.Finish = ip(run), ip(fin)
				ref.Status = mStatus{State: "Terminated", Result: map[string]string{"succeeded": "Succeeded", "failed": "Failed", "oom": "Failed"}[outcome]}
				ref.Deleted = &mStatus{State: "Terminated", Result: ref.Status.Result}
				switch c.Intn(6) {
				case 0, 1: // the stored ref lags behind the Pod
					ref.Finish, ref.Deleted = nil, nil
					ref.Status = mStatus{State: "Running"}
				case 2: // a kill was recorded before the Pod finished on its own
					ref.Finish = nil
					ref.Status = mStatus{State: "Killing"}
					ref.Deleted = &mStatus{State: "Terminated", Result: "Killed", Reason: Pick(c, []string{"", "PendingTimeout"})}
				case 3: // the Pod's status flapped back after it was seen finished
					pod.Phase, pod.ContFinish = "Pending", nil
					if c.Bool() {
						pod.ContStart = nil
					}
				}
				havePod = c.Chance(2, 3)
			case "killing":
				pod.Phase, pod.Scheduled, pod.StatusStart = "Running", true, ip(created+1)
				pod.ContStart, pod.Deletion = ip(run), ip(g.now-int64(c.Intn(40)))
				ref.Running, ref.Status.State = ip(run), "Killing"
				ref.Deleted = &mStatus{State: "Terminated", Result: "Killed", Reason: Pick(c, []string{"", "PendingTimeout"})}
			case "killed":
				ref.Deleted = &mStatus{State: "Terminated", Result: "Killed", Reason: Pick(c, []string{"", "PendingTimeout", "ForceDeleted", "JobDeleted"})}
				if c.Bool() {
					ref.Finish = ip(fin)
					ref.Status = *ref.Deleted
				}
				havePod = false
			case "lost":
				if c.Bool() {
					ref.Running, ref.Status.State = ip(run), "Running"
				}
				if c.Bool() {
					ref.Finish = ip(fin)
					ref.Status.State = "DeletedFinalStateUnknown"
				}
				havePod = false
			}
			stored := true
			if last && c.Chance(1, 8) {
				stored = false // created but not yet recorded
			}
			if stored {
				refs = append(refs, ref)
			}
			if havePod {
				if c.Chance(1, 12) {
					pod.Deletion = ip(g.now - int64(c.Intn(40)))
				}
				pods = append(pods, pod)
			}
		}
	}
	// stored order is the controller's sorted order most of the time
	if g.p.Chance(1, 5) && len(refs) > 1 {
		i, j := g.p.Intn(len(refs)), g.p.Intn(len(refs))
		refs[i], refs[j] = refs[j], refs[i]
	}
	return refs, pods
}

func runJobPure(ctx *RunCtx) *Result {
	res := NewResult()
	p := NewPRNG(ctx.Seed)
	for i := 0; i < ctx.N; i++ {
		c := p.Fork()
		g := &jobGen{p: c, now: 1700000000 + int64(c.Intn(1000))}
		fc := clocktesting.NewFakeClock(time.Unix(g.now, 0))
		ktime.Clock = fc
		m := g.genJob()
		refs, pods := g.genAttempts(m)
		m.Tasks = refs
		rj := m.obj()
		tks := m.podTasks(pods)

		newRefs := jobutil.GenerateTaskRefs(rj.Status.Tasks, tks)
		rj1 := jobutil.UpdateJobTaskRefs(rj, tks)
		rj2, err := jobcontroller.UpdateJobStatusFromTaskRefs(rj1)
		if err != nil {
			panic(err)
		}
		missing, err := parallel.ComputeMissingIndexesForCreation(rj, m.indexes)
		if err != nil {
			panic(err)
		}
		var miss []string
		for _, rq := range missing {
			h, _ := parallel.HashIndex(rq.ParallelIndex)
			e := int64(-1)
			if !rq.Earliest.IsZero() && rq.Earliest.Unix() > 0 {
				e = rq.Earliest.Unix()
			}
			miss = append(miss, CPair(CStr(h), CListZ([]int64{rq.RetryIndex, e})))
		}
		flags := []int64{0, 0}
		if jobcontroller.VerifCanCreateTask(rj) {
			flags[0] = 1
		}
		if jobcontroller.VerifShouldKillJob(rj2) {
			flags[1] = 1
		}
		podTerms := make([]string, len(pods))
		for k, pd := range pods {
			podTerms[k] = pd.coq()
		}
		term := CApp("mkJP", CZ(g.now), m.coq(), CList(podTerms), viewRefs(newRefs), viewJobStatus(rj2), CList(miss), CListZ(flags))
		res.Distribution["shape-"+m.Shape]++
		res.Distribution["phase-"+string(rj2.Status.Phase)]++
		res.Distribution[fmt.Sprintf("refs-%d", min(len(refs), 6))]++
		js := map[string]interface{}{"now": g.now, "job": m, "pods": pods, "phase": rj2.Status.Phase}
		res.Add(term, js, fmt.Sprintf("%s|%d|%d|%s", m.Shape, len(refs), len(pods), rj2.Status.Phase), len(refs)+len(pods) > 0)
		jobStatusMonitor(res, m, rj2, js)
		jobMergeMonitor(res, m, pods, rj2, js)
	}
	return res
}

func min(a, b int) int {
	if a < b {
		return a
	}
	return b
}

// jobStatusMonitor judges one computed Job status against C10 (result soundness) and
// C11 (coherence) directly, without the model.
func jobStatusMonitor(res *Result, m *mJob, rj *execution.Job, js interface{}) {
	hit := func(prop, sig, what string) { res.Hits = append(res.Hits, MonitorHit{prop, sig, what, js}) }
	st := rj.Status
	n := 0
	if st.Condition.Queueing != nil {
		n++
	}
	if st.Condition.Waiting != nil {
		n++
	}
	if st.Condition.Running != nil {
		n++
	}
	if st.Condition.Finished != nil {
		n++
	}
	if n != 1 {
		hit("C11", "C11/not-exactly-one-condition", fmt.Sprintf("%d conditions set", n))
	}
	want := execution.JobStateQueued
	switch {
	case st.Condition.Waiting != nil:
		want = execution.JobStateWaiting
	case st.Condition.Running != nil:
		want = execution.JobStateRunning
	case st.Condition.Finished != nil:
		want = execution.JobStateFinished
	}
	if st.State != want {
		hit("C11", "C11/state-mismatch", fmt.Sprintf("state %s but condition implies %s", st.State, want))
	}
	if st.Phase.IsTerminal() != (st.Condition.Finished != nil) {
		hit("C11", "C11/phase-terminal-mismatch", fmt.Sprintf("phase %s, finished condition set: %v", st.Phase, st.Condition.Finished != nil))
	}
	running := int64(0)
	for _, r := range st.Tasks {
		if !r.RunningTimestamp.IsZero() && r.FinishTimestamp.IsZero() {
			running++
		}
	}
	if st.CreatedTasks != int64(len(st.Tasks)) || st.RunningTasks != running {
		hit("C11", "C11/counters", fmt.Sprintf("createdTasks=%d runningTasks=%d but the task list shows %d/%d", st.CreatedTasks, st.RunningTasks, len(st.Tasks), running))
	}
	// C10: result soundness from the refs
	if f := st.Condition.Finished; f != nil && (f.Result == execution.JobResultSuccess || f.Result == execution.JobResultFailed) {
		succ := map[string]bool{}
		term := map[string]int64{}
		for _, r := range st.Tasks {
			v := viewRef(r)
			if r.Status.Result == execution.TaskSucceeded {
				succ[v.Hash] = true
			}
			if !r.FinishTimestamp.IsZero() {
				term[v.Hash]++
			}
		}
		nsucc, nfail := 0, 0
		for _, h := range m.Hashes {
			if succ[h] {
				nsucc++
			} else if term[h] >= m.MaxAttempts {
				nfail++
			}
		}
		any := m.Strategy == "Any"
		if f.Result == execution.JobResultSuccess {
			if (any && nsucc == 0) || (!any && nsucc < len(m.Hashes)) {
				hit("C10", "C10/success-unsound", fmt.Sprintf("result Success but %d of %d indexes have a succeeded task (strategy %q)", nsucc, len(m.Hashes), m.Strategy))
			}
		} else {
			if (any && nfail < len(m.Hashes)) || (!any && nfail == 0) {
				hit("C10", "C10/failed-unsound", fmt.Sprintf("result Failed but only %d of %d indexes are exhausted without success (strategy %q)", nfail, len(m.Hashes), m.Strategy))
			}
		}
		for _, r := range st.Tasks {
			if r.FinishTimestamp.IsZero() && rj.DeletionTimestamp == nil {
				hit("C10", "C10/finished-with-live-task", fmt.Sprintf("finished with result %s while task %s has no finish time", f.Result, r.Name))
			}
		}
	}
}

// jobMergeMonitor judges one merge of observed Pods into the recorded refs: recorded
// tasks stay listed, recorded running/finish times are not cleared (C11, C09), and the
// tombstone of a task whose Pod reports a finish is that last known state (C09), which is
// what the Job's result is computed from once the Pod is gone (C10).
func jobMergeMonitor(res *Result, m *mJob, pods []mPod, rj *execution.Job, js interface{}) {
	hit := func(prop, sig, what string) { res.Hits = append(res.Hits, MonitorHit{prop, sig, what, js}) }
	out := map[string]execution.TaskRef{}
	for _, r := range rj.Status.Tasks {
		out[r.Name] = r
	}
	for _, e := range m.Tasks {
		o, ok := out[e.Name]
		if !ok {
			hit("C09", "C09/recorded-task-dropped", fmt.Sprintf("task %s was recorded but is no longer listed", e.Name))
			hit("C11", "C11/created-tasks-decreased", fmt.Sprintf("task %s was recorded but is no longer listed", e.Name))
			continue
		}
		if e.Running != nil && o.RunningTimestamp.IsZero() {
			hit("C11", "C11/running-time-cleared", fmt.Sprintf("task %s: recorded running time %d was cleared", e.Name, *e.Running))
		}
		if e.Finish != nil && o.FinishTimestamp.IsZero() {
			hit("C11", "C11/finish-time-cleared", fmt.Sprintf("task %s: recorded finish time %d was cleared", e.Name, *e.Finish))
		}
	}
	for _, p := range pods {
		o, ok := out[p.Name]
		if !ok {
			continue
		}
		if p.Phase == "Succeeded" && !p.OOM && p.Controlled && o.Status.Result != execution.TaskSucceeded {
			hit("C10", "C10/succeeded-task-recorded-failed", fmt.Sprintf("task %s: Pod observed Succeeded (container exited 0; restarted after an earlier OOM kill: %v) but the task is recorded %q", p.Name, p.PrevOOM, o.Status.Result))
		}
		if (p.Phase == "Succeeded" || p.Phase == "Failed") && (o.DeletedStatus == nil || o.DeletedStatus.Result != o.Status.Result || o.DeletedStatus.State != o.Status.State) {
			what := fmt.Sprintf("task %s: Pod observed %s but the tombstone (deletedStatus) is %+v", p.Name, p.Phase, o.DeletedStatus)
			hit("C09", "C09/tombstone-not-last-known-state", what)
			hit("C10", "C10/tombstone-not-last-known-state", what)
		}
	}
}
