package main

import (
	"fmt"
	"os"
	"strings"
	"time"

	clocktesting "k8s.io/utils/clock/testing"

	"github.com/furiko-io/furiko/pkg/utils/ktime"

	corev1 "k8s.io/api/core/v1"
	metav1 "k8s.io/apimachinery/pkg/apis/meta/v1"

	execution "github.com/furiko-io/furiko/apis/execution/v1alpha1"
	"github.com/furiko-io/furiko/pkg/execution/controllers/jobcontroller"
	"github.com/furiko-io/furiko/pkg/execution/taskexecutor/podtaskexecutor"
	"github.com/furiko-io/furiko/pkg/execution/tasks"
	jobutil "github.com/furiko-io/furiko/pkg/execution/util/job"
)

// jobSyncMonitor judges a whole history of the real job controller against C08-C13
// (and the history clauses of C10/C11) directly: every Pod create and delete the
// controller issued, every stored Job version pairwise with its predecessor, and the
// end state after the system was driven to quiescence. It never consults the model.
// Signatures end in "/pod-cache-lag" when the pass that did it ran while Pod events
// were still undelivered to its cache.

func podAlive(p *corev1.Pod) bool {
	return p.Status.Phase != corev1.PodSucceeded && p.Status.Phase != corev1.PodFailed
}
func podControlled(p *corev1.Pod) bool {
	ref := metav1.GetControllerOf(p)
	return ref != nil && ref.Kind == "Job" && string(ref.UID) == jobUID
}
func splitTaskName(n string) (string, int64) {
	parts := strings.Split(n, "-")
	var r int64
	fmt.Sscan(parts[len(parts)-1], &r)
	return parts[len(parts)-2], r
}
func jobFinished(j *execution.Job) bool { return j != nil && j.Status.Condition.Finished != nil }

func jobSyncMonitor(res *Result, m *mJob, cfg jsCfg, ops []jsOp, obs []jsObs, js interface{}) {
	// Once a task has been recorded as lost/finished while its Pod exists (finding F4: the Pod
	// cache lagged behind the Job cache), the recorded finish time is kept forever and every
	// later judgement of this history is a consequence of it; such hits carry a suffix.
	tainted := false
	// A foreign Pod that takes the name of an ALREADY RECORDED task (whose own Pod is gone) is
	// looked up by name and merged into that task's ref (finding F16); later judgements of the
	// history are consequences of it.
	foreignOnRecorded := false
	hit := func(prop, sig, what string) {
		if tainted && !strings.HasPrefix(sig, "C09/lost-while-exists") {
			sig += "/after-lost-while-exists"
		} else if foreignOnRecorded && !strings.HasPrefix(sig, "C09/foreign-pod-treated-as-task") {
			sig += "/foreign-pod-on-recorded-name"
		}
		res.Hits = append(res.Hits, MonitorHit{prop, sig, what, js})
	}
	// detect the taint before judging the step in which it happens
	taintAt := -1
	for k := range ops {
		if obs[k].Job == nil || ops[k].Kind != "sync" {
			continue
		}
		for _, r := range obs[k].Job.Status.Tasks {
			for _, p := range obs[k].Pods {
				if p.Name == r.Name && podControlled(p) && podAlive(p) && (r.Status.State == execution.TaskDeletedFinalStateUnknown || !r.FinishTimestamp.IsZero()) && taintAt < 0 {
					taintAt = k
				}
				// the same defect with a Pod that has already finished: recorded as lost (finish time
				// = now) although the Pod is there with its real finish time
				if p.Name == r.Name && podControlled(p) && !podAlive(p) && r.Status.State == execution.TaskDeletedFinalStateUnknown && taintAt < 0 {
					taintAt = k
				}
			}
		}
	}
	lagSfx := func(o jsObs) string {
		s := ""
		if o.PodLag {
			s += "/pod-cache-lag"
		}
		if o.JobLag {
			s += "/job-cache-lag"
		}
		return s
	}
	pt := int64(0)
	if cfg.Pending != nil {
		pt = *cfg.Pending
	}
	if m.PendingTimeout != nil && *m.PendingTimeout >= 0 {
		pt = *m.PendingTimeout
	}
	fd := int64(0)
	if cfg.Force != nil {
		fd = *cfg.Force
	}
	created := map[string]int64{}          // per hash: number of successful creates so far
	truthFinish := map[string]int64{}      // per task name: when the attempt really ended
	truthSucceeded := map[string]bool{}    // per hash: a Pod of it really succeeded
	observedSucceeded := map[string]bool{} // per hash: a pass saw a Pod of it in phase Succeeded in its cache
	everRecorded := map[string]bool{}
	refusedForGood := false
	recordedSucceeded := map[string]string{} // index hash -> task whose success was in the API status      // task names that appeared in some stored status
	editedSinceFinished := false             // kill or delete issued by the user after the Job was first stored as finished
	foreignSeen := false
	var prevJob *execution.Job
	var prevPods []*corev1.Pod
	for k, o := range ops {
		ob := obs[k]
		now := ob.Now
		if k == taintAt {
			tainted = true
		}
		if prevJob != nil && !foreignOnRecorded {
			for _, r := range prevJob.Status.Tasks {
				for _, p := range prevPods {
					if p.Name == r.Name && !podControlled(p) {
						foreignOnRecorded = true
						hit("C09", "C09/foreign-pod-treated-as-task", fmt.Sprintf("op %d: Pod %s is not controlled by the Job but carries the name of a recorded task; the controller binds it by name", k, p.Name))
					}
				}
			}
		}
		switch o.Kind {
		case "kill", "delete":
			if prevJob != nil && jobFinished(prevJob) {
				editedSinceFinished = true
			}
		case "kubelet":
			switch o.Step {
			case "succeed":
				h, _ := splitTaskName(o.Name)
				for _, p := range prevPods {
					if p.Name == o.Name && podControlled(p) {
						truthSucceeded[h] = true
					}
				}
				truthFinish[o.Name] = now
			case "fail", "oom":
				truthFinish[o.Name] = now
			case "terminate", "vanish":
				if _, ok := truthFinish[o.Name]; !ok {
					truthFinish[o.Name] = now
				}
			}
		}
		if prevJob != nil && prevJob.Status.Condition.Finished != nil && prevJob.Status.Condition.Finished.Result == execution.JobResultAdmissionError {
			// the Job has been refused for good (a foreign object holds a task name, or a create
			// was rejected as invalid): that is what its status in the API says
			refusedForGood = true
		}
		if prevJob != nil {
			for _, r := range prevJob.Status.Tasks {
				everRecorded[r.Name] = true
				if r.Status.Result == execution.TaskSucceeded && r.Status.State == execution.TaskTerminated {
					// the success of this index has been in the Job's status in the API
					recordedSucceeded[viewRef(r).Hash] = r.Name
				}
			}
		}
		// Pods removed by this op (force delete, unscheduled delete)
		for _, p := range prevPods {
			gone := true
			for _, q := range ob.Pods {
				if q.Name == p.Name {
					gone = false
				}
			}
			if gone {
				if _, ok := truthFinish[p.Name]; !ok {
					truthFinish[p.Name] = now
				}
			}
		}
		if o.Kind == "sync" {
			cj := ob.CachedJob
			// an index counts as succeeded once some pass could SEE one of its Pods in phase Succeeded
			// (a Pod that succeeds and vanishes between two looks of the cache is lost, not succeeded)
			for _, p := range ob.CachedPods {
				if podControlled(p) && p.Status.Phase == corev1.PodSucceeded {
					_, v := podView(p, false)
					if v[1] == 0 {
						hh, _ := splitTaskName(p.Name)
						observedSucceeded[hh] = true
					}
				}
			}
			// Deadlines that only the passing of time can trigger need a timer: a pass that ends
			// without error while a task it saw is still inside its pending timeout, or is being
			// deleted and still inside the force-delete timeout, must arm a deferred re-sync
			// (nothing else will wake the controller when the deadline comes).
			if cj != nil && ob.OK && !cj.Status.StartTime.IsZero() && cj.DeletionTimestamp == nil {
				recorded := map[string]bool{}
				for _, r := range cj.Status.Tasks {
					recorded[r.Name] = true
				}
				for _, p := range ob.CachedPods {
					if !recorded[p.Name] {
						continue
					}
					_, v := podView(p, false)
					phase, del, createdAt, contStart := v[0], v[2], v[4], v[6]
					finished := phase == 2 || phase == 3
					if pt > 0 && !finished && contStart < 0 && now < createdAt+pt && !ob.Armed {
						hit("C12", "C12/no-timer-for-pending-timeout", fmt.Sprintf("op %d: %s is pending since %d, the pending timeout (%d s) ends at %d, now %d: the pass armed no re-sync", k, p.Name, createdAt, pt, createdAt+pt, now))
					}
					if fd > 0 && !m.ForbidForce && del >= 0 && now < del+fd && !ob.Armed {
						hit("C12", "C12/no-timer-for-force-delete", fmt.Sprintf("op %d: %s is being deleted since %d, force deletion (%d s) is due at %d, now %d: the pass armed no re-sync", k, p.Name, del, fd, del+fd, now))
					}
				}
			}
			// ... and a finished Job with its own TTL needs one for its clean-up
			if cj != nil && ob.OK && ob.Job != nil && jobFinished(ob.Job) && ob.Job.DeletionTimestamp == nil && cj.DeletionTimestamp == nil &&
				cj.Spec.TTLSecondsAfterFinished != nil && jobFinished(cj) && !ob.Armed {
				hit("C13", "C13/no-timer-for-ttl", fmt.Sprintf("op %d: the Job is finished and carries ttlSecondsAfterFinished=%d; the pass armed no re-sync", k, *cj.Spec.TTLSecondsAfterFinished))
			}
			createdBefore := map[string]int64{}
			for hh, v := range created {
				createdBefore[hh] = v
			}
			for _, a := range ob.Actions {
				switch a.Verb {
				case "create":
					if a.Outcome == 1 {
						for _, p := range prevPods {
							if p.Name == a.Name && !podControlled(p) {
								foreignSeen = true
							}
						}
					}
					if a.Outcome != 0 {
						continue
					}
					h, r := splitTaskName(a.Name)
					// An attempt whose Pod was created but never recorded (failed status write) and
					// then removed from outside leaves no trace anywhere: the controller cannot know
					// it existed, so re-using its number is not judged (DESIGN.md, C08 monitor).
					if r < created[h] && !everRecorded[a.Name] {
						created[h] = r
					}
					if r != created[h] {
						hit("C08", "C08/retry-number-not-next"+lagSfx(ob), fmt.Sprintf("op %d: created %s but %d attempts were created before for index %s", k, a.Name, created[h], h))
					}
					if r >= m.MaxAttempts {
						hit("C08", "C08/exceeds-max-attempts", fmt.Sprintf("op %d: created %s with maxAttempts %d", k, a.Name, m.MaxAttempts))
					}
					// "nor for any index once the Job is complete": judged when both caches are current,
					// on the truth - AnySuccessful is decided once a task of any index has succeeded,
					// AllSuccessful once an index has used all its attempts without success
					if !ob.PodLag && !ob.JobLag {
						decided := ""
						for _, hh := range m.Hashes {
							if m.Strategy == "Any" && observedSucceeded[hh] {
								decided = "index " + hh + " has succeeded (AnySuccessful)"
							}
							if m.Strategy != "Any" && hh != h && !truthSucceeded[hh] && createdBefore[hh] >= m.MaxAttempts {
								live := false
								for _, p := range prevPods {
									if ph, _ := splitTaskName(p.Name); ph == hh && podControlled(p) && podAlive(p) {
										live = true
									}
								}
								if !live {
									decided = fmt.Sprintf("index %s has used all %d attempts without success (AllSuccessful)", hh, m.MaxAttempts)
								}
							}
						}
						if decided != "" && len(m.Hashes) > 1 {
							hit("C08", "C08/create-after-complete", fmt.Sprintf("op %d: created %s although the Job is complete: %s", k, a.Name, decided))
						}
					}
					created[h]++
					for _, p := range prevPods {
						ph, pr := splitTaskName(p.Name)
						if ph == h && podControlled(p) && podAlive(p) {
							hit("C08", "C08/second-live-task"+lagSfx(ob), fmt.Sprintf("op %d: created %s while %s of the same index is neither finished nor gone", k, a.Name, p.Name))
						}
						_ = pr
					}
					if r > 0 {
						prev := taskName(h, r-1)
						if tf, ok := truthFinish[prev]; ok && now < tf+m.RetryDelay {
							hit("C08", "C08/retry-before-delay", fmt.Sprintf("op %d: created %s at %d but attempt %d ended at %d and retryDelay is %d s", k, a.Name, now, r-1, tf, m.RetryDelay))
						}
					}
					if cj != nil {
						_, adm := jobutil.GetAdmissionErrorMessage(cj)
						if cj.Spec.KillTimestamp != nil {
							hit("C08", "C08/create-with-kill-timestamp", fmt.Sprintf("op %d: created %s although the Job (as cached) has a kill timestamp", k, a.Name))
							hit("C12", "C12/create-with-kill-timestamp", fmt.Sprintf("op %d: created %s although the Job (as cached) has a kill timestamp", k, a.Name))
						}
						if adm || cj.DeletionTimestamp != nil {
							hit("C08", "C08/create-after-gate-closed", fmt.Sprintf("op %d: created %s although the Job has an admission error or is being deleted", k, a.Name))
						}
						if refusedForGood && !ob.JobLag {
							hit("C09", "C09/task-created-after-admission-error", fmt.Sprintf("op %d: created %s although the Job's status in the API already says Finished / AdmissionError (the refusal was to be final; the Job cache is current)", k, a.Name))
						}
						reported := false
						for _, ref := range cj.Status.Tasks {
							if viewRef(ref).Hash == h && ref.Status.Result == execution.TaskSucceeded {
								reported = true
								hit("C08", "C08/create-after-success", fmt.Sprintf("op %d: created %s although %s of the same index succeeded", k, a.Name, ref.Name))
							}
						}
						if rn, ok := recordedSucceeded[h]; ok && !reported {
							hit("C08", "C08/create-after-success", fmt.Sprintf("op %d: created %s although the status in the API has recorded %s of the same index as Succeeded before (the record was rewritten since)", k, a.Name, rn))
						}
					}
				case "delete":
					if a.Outcome == 3 {
						continue
					}
					var pod *corev1.Pod
					for _, p := range prevPods {
						if p.Name == a.Name {
							pod = p
						}
					}
					if a.Force {
						if fd <= 0 || m.ForbidForce {
							hit("C12", "C12/force-delete-forbidden", fmt.Sprintf("op %d: force-deleted %s with force timeout %d, forbid=%v", k, a.Name, fd, m.ForbidForce))
						}
						if pod != nil && (pod.DeletionTimestamp == nil || now < pod.DeletionTimestamp.Unix()+fd) {
							hit("C12", "C12/force-delete-early", fmt.Sprintf("op %d: force-deleted %s at %d, deletionTimestamp %v, timeout %d", k, a.Name, now, pod.DeletionTimestamp, fd))
						}
						continue
					}
					// why may the controller delete this task now?
					cause := false
					after := ob.Job
					// the status the pass computes from its own caches (it may fail to store it)
					var inPass *execution.Job
					if cj != nil {
						var tks []tasks.Task
						for _, r := range cj.Status.Tasks {
							for _, p := range ob.CachedPods {
								if p.Name == r.Name {
									tks = append(tks, podtaskexecutor.NewPodTask(p, nil))
								}
							}
						}
						saved := ktime.Clock
						ktime.Clock = clocktesting.NewFakePassiveClock(time.Unix(now, 0))
						if st, err := jobcontroller.UpdateJobStatusFromTaskRefs(jobutil.UpdateJobTaskRefs(cj, tks)); err == nil {
							inPass = st
						}
						ktime.Clock = saved
					}
					for _, j := range []*execution.Job{cj, after, inPass} {
						if j == nil {
							continue
						}
						if j.DeletionTimestamp != nil {
							cause = true
						}
						if kt := j.Spec.KillTimestamp; kt != nil && kt.Unix() <= now && j == cj {
							cause = true
						}
						if ps := j.Status.ParallelStatus; ps != nil && ps.Complete {
							cause = true
						}
					}
					// pending timeout: judged on what the controller can see (its cached Pod) and on the truth
					for _, cp := range append(append([]*corev1.Pod{}, ob.CachedPods...), pod) {
						if cp != nil && cp.Name == a.Name && pt > 0 && cp.Status.Phase != corev1.PodRunning && podAlive(cp) && cp.CreationTimestamp.Unix()+pt <= now {
							cause = true
						}
					}
					if !cause {
						sig := "C12/delete-without-cause"
						if cj != nil && cj.Spec.KillTimestamp != nil && cj.Spec.KillTimestamp.Unix() > now {
							sig = "C12/kill-before-kill-timestamp"
						}
						hit("C12", sig+lagSfx(ob), fmt.Sprintf("op %d: deleted %s at %d without a passed kill timestamp, decided strategy, pending timeout or Job deletion", k, a.Name, now))
					}
				case "delete-job":
					if a.Outcome == 3 || cj == nil {
						continue
					}
					ttl := int64(0)
					if cfg.TTL != nil {
						ttl = *cfg.TTL
					}
					if cj.Spec.TTLSecondsAfterFinished != nil {
						ttl = *cj.Spec.TTLSecondsAfterFinished
					}
					// the pass judges the status it has just computed from its caches (a Job that finishes
					// in this very pass may be deleted before that status is stored)
					var tks []tasks.Task
					for _, r := range cj.Status.Tasks {
						for _, p := range ob.CachedPods {
							if p.Name == r.Name {
								tks = append(tks, podtaskexecutor.NewPodTask(p, nil))
							}
						}
					}
					// ... including the Job's own Pods that this pass adopted (its create hit them, the
					// cached Job - lagging - did not list them yet)
					for _, a2 := range ob.Actions {
						if a2.Verb != "create" || a2.Outcome != 1 {
							continue
						}
						for _, p := range ob.CachedPods {
							listed := false
							for _, r := range cj.Status.Tasks {
								if r.Name == p.Name {
									listed = true
								}
							}
							if p.Name == a2.Name && podControlled(p) && !listed {
								tks = append(tks, podtaskexecutor.NewPodTask(p, nil))
							}
						}
					}
					saved := ktime.Clock
					ktime.Clock = clocktesting.NewFakePassiveClock(time.Unix(now, 0))
					st, err := jobcontroller.UpdateJobStatusFromTaskRefs(jobutil.UpdateJobTaskRefs(cj, tks))
					ktime.Clock = saved
					admInPass := false // an admission error raised by this very pass finishes the Job now
					for _, a2 := range ob.Actions {
						if a2.Verb == "create" && a2.Outcome == 2 {
							admInPass = true
						}
						if a2.Verb == "create" && a2.Outcome == 1 {
							for _, p := range prevPods {
								if p.Name == a2.Name && !podControlled(p) {
									admInPass = true
								}
							}
						}
					}
					if admInPass {
						// finish time = now: any ttl >= 0 must have elapsed
						if ttl > 0 {
							hit("C13", "C13/ttl-delete-early", fmt.Sprintf("op %d: controller deleted the Job in the pass that raised its admission error, ttl %d", k, ttl))
						}
					} else if err != nil || st.Status.Condition.Finished == nil {
						hit("C13", "C13/ttl-delete-unfinished", fmt.Sprintf("op %d: controller deleted a Job that is not finished (ttl=%d)", k, ttl))
					} else if ft := st.Status.Condition.Finished.FinishTimestamp; !ft.IsZero() && now < ft.Unix()+ttl {
						hit("C13", "C13/ttl-delete-early", fmt.Sprintf("op %d: controller deleted the Job at %d, finish %d, ttl %d", k, now, ft.Unix(), ttl))
					}
				}
			}
		}
		// pairwise comparison of stored Job versions
		if prevJob != nil && ob.Job != nil {
			a, b := prevJob, ob.Job
			if !a.Status.StartTime.IsZero() && (b.Status.StartTime.IsZero() || !a.Status.StartTime.Equal(b.Status.StartTime)) {
				hit("C11", "C11/start-time-changed", fmt.Sprintf("op %d: startTime %v -> %v", k, a.Status.StartTime, b.Status.StartTime))
			}
			if jobFinished(a) && !jobFinished(b) {
				hit("C11", "C11/finished-became-unfinished"+lagSfx(ob), fmt.Sprintf("op %d: phase %s -> %s", k, a.Status.Phase, b.Status.Phase))
			}
			// a pass in which an API call failed (server error, or a conflict on a write) must return
			// an error: only then does the work queue re-add the Job; a swallowed error means the
			// call is never retried (no write happened, so no event will wake the controller)
			if o.Kind == "sync" && ob.OK {
				for _, act := range ob.Actions {
					if act.Outcome == 3 || (act.Outcome == 2 && strings.HasPrefix(act.Verb, "update")) {
						hit("C20", "C20/failed-call-not-retried", fmt.Sprintf("op %d: %s %s failed (outcome %d) but the pass reported success: the work queue forgets the Job", k, act.Verb, act.Name, act.Outcome))
						if act.Verb == "delete" {
							hit("C12", "C12/failed-delete-not-retried", fmt.Sprintf("op %d: deleting %s failed but the pass reported success: nothing retries the delete, the task stays alive", k, act.Name))
							hit("C13", "C13/failed-delete-not-retried", fmt.Sprintf("op %d: deleting %s failed but the pass reported success: nothing retries the delete", k, act.Name))
						}
						break
					}
				}
			}
			// a create answered AlreadyExists by a Pod that is the Job's own but not yet in the Pod
			// cache (left by an earlier pass whose status write failed): nothing can be decided
			// yet - the pass must end there with an error and be retried
			if o.Kind == "sync" {
				for i, act := range ob.Actions {
					if act.Verb != "create" || act.Outcome != 1 {
						continue
					}
					own, cached := false, false
					for _, p := range prevPods {
						if p.Name == act.Name && podControlled(p) {
							own = true
						}
					}
					for _, p := range ob.CachedPods {
						if p.Name == act.Name {
							cached = true
						}
					}
					if own && !cached {
						if i != len(ob.Actions)-1 || ob.OK {
							hit("C09", "C09/own-task-not-awaited"+lagSfx(ob), fmt.Sprintf("op %d: create of %s hit the Job's own Pod, which the Pod cache has not delivered yet; the pass went on (%d more API calls, error returned: %v) instead of retrying", k, act.Name, len(ob.Actions)-1-i, !ob.OK))
							hit("C20", "C20/own-task-refused-after-failed-pass"+lagSfx(ob), fmt.Sprintf("op %d: create of %s hit the Job's own Pod (left by an earlier pass), not yet in the Pod cache; the pass went on (%d more API calls, error returned: %v) instead of retrying", k, act.Name, len(ob.Actions)-1-i, !ob.OK))
							hit("C10", "C10/own-task-taken-for-foreign"+lagSfx(ob), fmt.Sprintf("op %d: create of %s hit the Job's own Pod, not yet in the Pod cache; the pass went on instead of retrying: the Job is refused (finished with an admission error) while its own task lives on", k, act.Name))
						}
						break
					}
				}
			}
			// an admission error is terminal: it may only be raised when the API refused the task as
			// invalid, or a Pod that is NOT the Job's own holds the task's name. A Pod of the Job
			// itself (created by an earlier pass whose status write failed) must be adopted, however
			// late the Pod cache learns of it.
			if _, had := jobutil.GetAdmissionErrorMessage(a); !had && o.Kind == "sync" {
				if _, has := jobutil.GetAdmissionErrorMessage(b); has {
					justified := false
					for _, act := range ob.Actions {
						if act.Verb != "create" {
							continue
						}
						if act.Outcome == 2 {
							justified = true
						}
						if act.Outcome == 1 {
							for _, p := range prevPods {
								if p.Name == act.Name && !podControlled(p) {
									justified = true
								}
							}
						}
					}
					if !justified {
						hit("C09", "C09/own-task-refused"+lagSfx(ob), fmt.Sprintf("op %d: the Job was given an admission error although no create was refused as invalid and no foreign Pod holds a task name", k))
						hit("C20", "C20/own-task-refused-after-failed-pass"+lagSfx(ob), fmt.Sprintf("op %d: the Job was given an admission error although no create was refused as invalid and no foreign Pod holds a task name (a Pod created by an earlier, failed pass is the Job's own)", k))
						hit("C10", "C10/own-task-taken-for-foreign"+lagSfx(ob), fmt.Sprintf("op %d: the Job was given an admission error (a final result) although no create was refused as invalid and no foreign Pod holds a task name", k))
					}
				}
			}
			// exempt once the user has killed/deleted the Job, or the Job is being deleted at all
			// (TTL clean-up by the controller rewrites the status of a deleting Job; documented in DESIGN.md)
			if !jobFinished(a) {
				editedSinceFinished = false
			}
			// a user edit made BEFORE the Job finished (e.g. a kill time still in the future when
			// the last task ended) does not excuse a later change of the recorded result
			if jobFinished(a) && jobFinished(b) && !editedSinceFinished && a.DeletionTimestamp == nil && b.DeletionTimestamp == nil {
				fa, fb := a.Status.Condition.Finished, b.Status.Condition.Finished
				if fa.Result != fb.Result || !fa.FinishTimestamp.Equal(&fb.FinishTimestamp) {
					hit("C11", "C11/result-or-finish-time-changed"+lagSfx(ob), fmt.Sprintf("op %d: %s@%d -> %s@%d", k, fa.Result, fa.FinishTimestamp.Unix(), fb.Result, fb.FinishTimestamp.Unix()))
				}
			}
			if b.Status.CreatedTasks < a.Status.CreatedTasks {
				hit("C11", "C11/created-tasks-decreased", fmt.Sprintf("op %d: %d -> %d", k, a.Status.CreatedTasks, b.Status.CreatedTasks))
			}
			for _, ra := range a.Status.Tasks {
				found := false
				for _, rb := range b.Status.Tasks {
					if ra.Name != rb.Name {
						continue
					}
					found = true
					if (!ra.RunningTimestamp.IsZero() && rb.RunningTimestamp.IsZero()) || (!ra.FinishTimestamp.IsZero() && rb.FinishTimestamp.IsZero()) {
						hit("C11", "C11/task-time-cleared", fmt.Sprintf("op %d: task %s lost a recorded timestamp", k, ra.Name))
					}
				}
				if !found {
					hit("C09", "C09/recorded-task-dropped", fmt.Sprintf("op %d: task %s is no longer listed", k, ra.Name))
				}
			}
			// a task that enters the status must be a Pod this Job controls
			for _, rb := range b.Status.Tasks {
				isNew := true
				for _, ra := range a.Status.Tasks {
					if ra.Name == rb.Name {
						isNew = false
					}
				}
				if !isNew {
					continue
				}
				for _, p := range ob.Pods {
					if p.Name == rb.Name && !podControlled(p) {
						hit("C09", "C09/foreign-pod-adopted", fmt.Sprintf("op %d: %s is not controlled by the Job but was added to status.tasks", k, p.Name))
					}
				}
			}
			// newly finished, not deleting: nothing of the Job may still be alive
			if !jobFinished(a) && jobFinished(b) && b.DeletionTimestamp == nil {
				for _, p := range ob.Pods {
					if podControlled(p) && podAlive(p) {
						sig := "C10/finished-with-live-task"
						if b.Status.Condition.Finished.Result == execution.JobResultAdmissionError {
							sig += "/admission-error"
						}
						if !everRecorded[p.Name] {
							// the live Pod was created by a pass whose status write failed or whose gate
							// closed before it was recorded (finding F10): the status knows nothing of it
							sig += "/unrecorded-task"
						}
						hit("C10", sig+lagSfx(ob), fmt.Sprintf("op %d: Job reported %s while %s is alive", k, b.Status.Condition.Finished.Result, p.Name))
					}
				}
				if b.Status.Condition.Finished.Result == execution.JobResultSuccess {
					n := 0
					for _, h := range m.Hashes {
						if truthSucceeded[h] {
							n++
						}
					}
					if (m.Strategy == "Any" && n == 0) || (m.Strategy != "Any" && n < len(m.Hashes)) {
						hit("C10", "C10/success-not-real"+lagSfx(ob), fmt.Sprintf("op %d: result Success but only %d of %d indexes had a Pod that really succeeded", k, n, len(m.Hashes)))
					}
				}
			}
		}
		// a task whose Pod the pass saw Succeeded (its container exited 0, whatever an earlier,
		// restarted run of it did) is not recorded Failed
		if ob.Job != nil && o.Kind == "sync" {
			for _, r := range ob.Job.Status.Tasks {
				if r.Status.State != execution.TaskTerminated || r.Status.Result != execution.TaskFailed {
					continue
				}
				for _, p := range ob.CachedPods {
					if p.Name != r.Name || !podControlled(p) || p.Status.Phase != corev1.PodSucceeded {
						continue
					}
					oomNow := false
					for _, cst := range p.Status.ContainerStatuses {
						if cst.State.Terminated != nil && cst.State.Terminated.Reason == "OOMKilled" {
							oomNow = true
						}
					}
					if !oomNow {
						hit("C10", "C10/succeeded-task-recorded-failed", fmt.Sprintf("op %d: Pod %s is Succeeded (container state %+v, last state %+v) but the task is recorded Failed", k, p.Name, p.Status.ContainerStatuses[0].State.Terminated, p.Status.ContainerStatuses[0].LastTerminationState.Terminated))
					}
				}
			}
		}
		// refs marked lost while their Pod exists and is alive
		if ob.Job != nil && o.Kind == "sync" {
			for _, r := range ob.Job.Status.Tasks {
				if r.Status.State != execution.TaskDeletedFinalStateUnknown {
					continue
				}
				for _, p := range ob.Pods {
					if p.Name == r.Name && podControlled(p) && k == taintAt {
						hit("C09", "C09/lost-while-exists"+lagSfx(ob), fmt.Sprintf("op %d: task %s recorded as DeletedFinalStateUnknown while its Pod exists", k, r.Name))
					}
				}
			}
		}
		// the Job object left the API: its tasks must be gone
		if prevJob != nil && ob.Job == nil {
			for _, r := range prevJob.Status.Tasks {
				for _, p := range ob.Pods {
					if p.Name == r.Name {
						hit("C13", "C13/job-gone-before-tasks"+lagSfx(ob), fmt.Sprintf("op %d: the Job was removed while its task %s still exists", k, p.Name))
					}
				}
			}
		}
		// ... and the pass that lets the Job go must not have created a task in the same breath
		// (the new Pod is in no cache and in no status: nobody will ever stop it)
		if prevJob != nil && ob.Job == nil && o.Kind == "sync" {
			for _, act := range ob.Actions {
				if act.Verb == "create" && act.Outcome == 0 {
					hit("C13", "C13/job-removed-by-the-pass-that-created-a-task", fmt.Sprintf("op %d: the pass created %s and removed the Job's finalizer; the Job is gone, the Pod runs unattended", k, act.Name))
				}
			}
		}
		prevJob, prevPods = ob.Job, ob.Pods
	}
	// end state (the generator drives every history to quiescence)
	last := obs[len(obs)-1]
	if os.Getenv("VERIF_DEBUG_JS") != "" {
		if j := last.Job; j != nil {
			fmt.Fprintf(os.Stderr, "DEBUG end: phase=%s kill=%v start=%v now=%d npods=%d\n", j.Status.Phase, j.Spec.KillTimestamp, j.Status.StartTime, last.Now, len(last.Pods))
			for _, p := range last.Pods {
				fmt.Fprintf(os.Stderr, "   pod %s phase=%s del=%v controlled=%v\n", p.Name, p.Status.Phase, p.DeletionTimestamp, podControlled(p))
			}
		} else {
			fmt.Fprintf(os.Stderr, "DEBUG end: job gone\n")
		}
	}
	if j := last.Job; j != nil {
		listed := map[string]bool{}
		for _, r := range j.Status.Tasks {
			listed[r.Name] = true
		}
		for _, p := range last.Pods {
			if podControlled(p) && !listed[p.Name] {
				hit("C09", "C09/unrecorded-task-at-quiescence", fmt.Sprintf("Pod %s is owned by the Job but not listed in status.tasks (phase %s, kill %v, deletion %v)", p.Name, j.Status.Phase, j.Spec.KillTimestamp, j.DeletionTimestamp))
			}
		}
		if kt := j.Spec.KillTimestamp; kt != nil && kt.Unix() <= last.Now && !j.Status.StartTime.IsZero() {
			if !j.Status.Phase.IsTerminal() {
				hit("C12", "C12/not-terminal-after-kill", fmt.Sprintf("kill timestamp passed but phase is %s at quiescence", j.Status.Phase))
			}
			for _, p := range last.Pods {
				if podControlled(p) && podAlive(p) {
					sig := "C12/task-alive-after-kill"
					if !listed[p.Name] {
						sig = "C12/unrecorded-task-alive-after-kill"
					}
					hit("C12", sig, fmt.Sprintf("kill timestamp passed but %s is alive at quiescence", p.Name))
				}
			}
		}
		if pt > 0 && !j.Status.StartTime.IsZero() && j.DeletionTimestamp == nil {
			for _, p := range last.Pods {
				if podControlled(p) && listed[p.Name] && p.Status.Phase != corev1.PodRunning && podAlive(p) && p.DeletionTimestamp == nil && p.CreationTimestamp.Unix()+pt <= last.Now {
					hit("C12", "C12/pending-task-not-reaped", fmt.Sprintf("%s has been pending since %d, pending timeout %d s, clock %d, and is still there at quiescence", p.Name, p.CreationTimestamp.Unix(), pt, last.Now))
				}
			}
		}
		if foreignSeen && j.Spec.KillTimestamp == nil && j.DeletionTimestamp == nil && j.Status.Phase != execution.JobAdmissionError && !j.Status.Phase.IsTerminal() {
			hit("C09", "C09/foreign-occupant-no-admission-error", fmt.Sprintf("a foreign Pod occupies a task name but the Job is %s at quiescence", j.Status.Phase))
		}
		if j.DeletionTimestamp != nil {
			hit("C13", "C13/deletion-does-not-complete", fmt.Sprintf("the Job has a deletion timestamp but is still present at quiescence (finalizers %v, %d Pods left)", j.Finalizers, len(last.Pods)))
		}
	}
}
