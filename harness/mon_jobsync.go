package main

// jobSyncMonitor: placeholder, filled in below (history-level judgement of C08-C13).
func jobSyncMonitor(res *Result, m *mJob, cfg jsCfg, ops []jsOp, obs []jsObs, js interface{}) {}
