package main

import (
	"context"
	"encoding/json"
	"fmt"
	"reflect"
	"sort"
	"strings"
	"time"

	jsonpatch "github.com/evanphx/json-patch"
	admissionv1 "k8s.io/api/admission/v1"
	metav1 "k8s.io/apimachinery/pkg/apis/meta/v1"
	"k8s.io/apimachinery/pkg/runtime"
	"k8s.io/apimachinery/pkg/types"
	clocktesting "k8s.io/utils/clock/testing"
	"k8s.io/utils/pointer"

	configv1alpha1 "github.com/furiko-io/furiko/apis/config/v1alpha1"
	executiongroup "github.com/furiko-io/furiko/apis/execution"
	execution "github.com/furiko-io/furiko/apis/execution/v1alpha1"
	"github.com/furiko-io/furiko/pkg/core/options"
	"github.com/furiko-io/furiko/pkg/execution/mutation"
	"github.com/furiko-io/furiko/pkg/execution/util/jobconfig"
	"github.com/furiko-io/furiko/pkg/execution/webhooks/jobconfigmutatingwebhook"
	"github.com/furiko-io/furiko/pkg/execution/webhooks/jobmutatingwebhook"
)

// Family "mutate" (C16): the real mutating webhooks (Webhook.Handle on AdmissionRequests),
// the returned JSON patch applied to the submitted raw object with evanphx/json-patch (the
// API server's library), against Admission/Mutate.v.

func init() {
	register(&Family{Name: "mutate", Run: runMutate, CheckModule: "Cases.MutateCheck", CaseOK: "mut_ok"})
}

func gvkOf(kind string) metav1.GroupVersionKind {
	return metav1.GroupVersionKind{Group: execution.GroupVersion.Group, Version: execution.GroupVersion.Version, Kind: kind}
}

// rawOf marshals the object the way a client would send it: optionally without status and
// without the null creationTimestamp.
func rawOf(c *PRNG, obj interface{}) []byte {
	b, err := json.Marshal(obj)
	if err != nil {
		panic(err)
	}
	var m map[string]interface{}
	if err := json.Unmarshal(b, &m); err != nil {
		panic(err)
	}
	if c.Chance(2, 3) {
		delete(m, "status")
	}
	if md, ok := m["metadata"].(map[string]interface{}); ok && md["creationTimestamp"] == nil && c.Chance(2, 3) {
		delete(md, "creationTimestamp")
	}
	out, _ := json.Marshal(m)
	return out
}

func applyPatch(raw []byte, resp *admissionv1.AdmissionResponse) ([]byte, error) {
	if len(resp.Patch) == 0 {
		return raw, nil
	}
	p, err := jsonpatch.DecodePatch(resp.Patch)
	if err != nil {
		return nil, err
	}
	return p.Apply(raw)
}

func kvOfMap(m map[string]string, skip string) string {
	c := map[string]string{}
	for k, v := range m {
		if k != skip {
			c[k] = v
		}
	}
	return kvTerm(c)
}

func mjobTerm(rj *execution.Job, values string) string {
	owner := "None"
	if ref := metav1.GetControllerOf(rj); ref != nil && ref.Kind == execution.KindJobConfig {
		owner = "(Some " + CPair(CStr(ref.Name), CStr(string(ref.UID))) + ")"
	}
	sp := "None"
	if p := rj.Spec.StartPolicy; p != nil {
		sp = "(Some " + CPair(CStr(string(p.ConcurrencyPolicy)), COptZ(mtz(p.StartAfter))) + ")"
	}
	tt := "None"
	if rj.Spec.Template != nil {
		tt = "(Some " + tmplTerm(rj.Spec.Template) + ")"
	}
	return CApp("mkMJ", CZ(rj.CreationTimestamp.Unix()), CListStr(rj.Finalizers), kvOfMap(rj.Labels, ""),
		kvOfMap(rj.Annotations, jobconfig.AnnotationKeyOptionSpecHash), owner, CStr(string(rj.Spec.Type)), CStr(rj.Spec.ConfigName),
		COptZ(rj.Spec.TTLSecondsAfterFinished), sp, tt, values, kvTerm(rj.Spec.Substitutions))
}

func mjcTerm(rjc *execution.JobConfig) string {
	var opts []string
	for _, o := range optionsOf(rjc) {
		opts = append(opts, optTermOf(o))
	}
	return CApp("mkMJC", CStr(rjc.Name), CStr(string(rjc.UID)), CStr(string(rjc.Spec.Concurrency.Policy)), CList(opts),
		tmplTerm(&rjc.Spec.Template.Spec), kvTerm(rjc.Spec.Template.Labels), kvTerm(rjc.Spec.Template.Annotations))
}

func dynTerm(sc *SimContext) string {
	cfg, err := sc.Configs().Jobs()
	if err != nil {
		panic(err)
	}
	return CApp("mkDyn", COptZ(cfg.DefaultTTLSecondsAfterFinished), COptZ(cfg.DefaultPendingTimeoutSeconds))
}

func runMutate(ctx *RunCtx) *Result {
	res := NewResult()
	p := NewPRNG(ctx.Seed)
	for i := 0; i < ctx.N; i++ {
		c := p.Fork()
		sc := NewSimContext()
		if c.Chance(1, 2) {
			sc.SetConfig(configv1alpha1.JobExecutionConfigName, &configv1alpha1.JobExecutionConfig{
				DefaultTTLSecondsAfterFinished: pointer.Int64(Pick(c, []int64{0, 120, 7200})),
				DefaultPendingTimeoutSeconds:   pointer.Int64(Pick(c, []int64{0, 30, 600}))})
		}
		if c.Chance(3, 5) {
			mutJobCase(c, res, sc)
		} else {
			mutJobConfigCase(c, res, sc)
		}
	}
	return res
}

func mutJobCase(c *PRNG, res *Result, sc *SimContext) {
	js := map[string]interface{}{}
	hit := func(sig, what string) { res.Hits = append(res.Hits, MonitorHit{"C16", sig, what, js}) }
	finalizer := executiongroup.DeleteDependentsFinalizer
	// JobConfigs known to the webhook
	var jcs []*execution.JobConfig
	var jcTerms []string
	for k, name := range []string{"jc", "nightly"} {
		if k == 1 && c.Bool() {
			break
		}
		rjc := &execution.JobConfig{ObjectMeta: metav1.ObjectMeta{Namespace: "ns", Name: name, UID: types.UID("uid-" + name)}}
		rjc.Spec.Concurrency.Policy = Pick(c, []execution.ConcurrencyPolicy{"Allow", "Forbid", "Enqueue"})
		rjc.Spec.Template.Spec = genJobTemplate(c, true)
		if c.Bool() {
			rjc.Spec.Template.Labels = map[string]string{"team": "t", jobconfig.LabelKeyJobConfigUID: "template-forged"}
		}
		if c.Bool() {
			rjc.Spec.Template.Annotations = map[string]string{"doc": "d", jobconfig.AnnotationKeyScheduleTime: "42"}
		}
		if c.Chance(2, 3) {
			rjc.Spec.Option = &execution.OptionSpec{}
			for n := 0; n < 1+c.Intn(2); n++ {
				o, _ := genOption(c, []string{"a", "b"}[n])
				makeOptionValid(c, &o)
				if o.Bool != nil && o.Bool.Format == "" && !c.Chance(1, 8) {
					o.Bool.Format = execution.BoolOptionFormatTrueFalse
				}
				if c.Chance(2, 3) {
					o.Required = false
				}
				rjc.Spec.Option.Options = append(rjc.Spec.Option.Options, o)
			}
		}
		sc.informers.JobConfigs.Set(rjc)
		jcs = append(jcs, rjc)
		jcTerms = append(jcTerms, mjcTerm(rjc))
	}
	// the submitted Job
	rj := &execution.Job{TypeMeta: metav1.TypeMeta{APIVersion: "execution.furiko.io/v1alpha1", Kind: "Job"},
		ObjectMeta: metav1.ObjectMeta{Namespace: "ns", Name: "my-job"}}
	if c.Chance(1, 3) {
		rj.CreationTimestamp = metav1.NewTime(time.Unix(1700000000+int64(c.Intn(100)), 0).UTC())
	}
	rj.Finalizers = Pick(c, [][]string{nil, {finalizer}, {"other/finalizer"}, {"other/finalizer", finalizer}})
	rj.Labels = Pick(c, []map[string]string{nil, {"app": "x"}, {"team": "mine"}, {jobconfig.LabelKeyJobConfigUID: "forged"}})
	rj.Annotations = Pick(c, []map[string]string{nil, {"note": "n"}, {"doc": "mine"}, {jobconfig.AnnotationKeyScheduleTime: "123"}})
	rj.Spec.Type = Pick(c, []execution.JobType{"", "", execution.JobTypeAdhoc, execution.JobTypeScheduled})
	rj.Spec.ConfigName = Pick(c, []string{"", "jc", "jc", "nightly", "ghost"})
	if c.Chance(1, 4) {
		// an explicit owner reference instead of (or besides) configName
		jc := Pick(c, jcs)
		tr := true
		uid := jc.UID
		if c.Chance(1, 5) {
			uid = "stale-uid"
		}
		nm := jc.Name
		if c.Chance(1, 8) {
			nm = "ghost"
		}
		rj.OwnerReferences = []metav1.OwnerReference{{APIVersion: "execution.furiko.io/v1alpha1", Kind: "JobConfig", Name: nm, UID: uid, Controller: &tr, BlockOwnerDeletion: &tr}}
		if !c.Chance(1, 4) {
			if rj.Labels == nil {
				rj.Labels = map[string]string{}
			} else {
				cp := map[string]string{}
				for k, v := range rj.Labels {
					cp[k] = v
				}
				rj.Labels = cp
			}
			rj.Labels[jobconfig.LabelKeyJobConfigUID] = string(jc.UID)
		}
	}
	if c.Chance(1, 3) {
		rj.Spec.TTLSecondsAfterFinished = pointer.Int64(60)
	}
	switch c.Intn(5) {
	case 1:
		rj.Spec.StartPolicy = &execution.StartPolicySpec{}
	case 2:
		rj.Spec.StartPolicy = &execution.StartPolicySpec{ConcurrencyPolicy: "Enqueue"}
	case 3:
		rj.Spec.StartPolicy = &execution.StartPolicySpec{StartAfter: mtp(ip(1700003600))}
	}
	if c.Chance(1, 2) {
		t := genJobTemplate(c, true)
		rj.Spec.Template = &t
	}
	values := map[string]interface{}{}
	valuesTerm := "None"
	bad := false
	if c.Chance(1, 2) {
		for _, n := range []string{"a", "b", "ghost"} {
			if c.Chance(1, 2) {
				values[n] = Pick(c, []interface{}{"dev", "prod", true, false, []interface{}{"a"}, []interface{}{"b", "c"}, "x y", nil, 3})
			}
		}
		b, _ := json.Marshal(values)
		rj.Spec.OptionValues = string(b)
		if c.Chance(1, 10) {
			rj.Spec.OptionValues = "{{{ not json"
			bad = true
		}
		var vt []string
		var ks []string
		for k := range values {
			ks = append(ks, k)
		}
		sort.Strings(ks)
		for _, k := range ks {
			vt = append(vt, CPair(CStr(k), coqVal(values[k])))
		}
		valuesTerm = "(Some " + CList(vt) + ")"
	}
	if c.Chance(1, 3) {
		rj.Spec.Substitutions = Pick(c, []map[string]string{{"option.a": "explicit"}, {"jobconfig.name": "overridden", "x": "y"}, {}})
	}
	update := c.Chance(1, 5)
	op := admissionv1.Create
	if update {
		op = admissionv1.Update
	}
	raw := rawOf(c, rj)
	js["op"], js["raw"], js["jobconfigs"] = op, string(raw), jcs
	hook, _ := jobmutatingwebhook.NewWebhook(sc)
	req := &admissionv1.AdmissionRequest{Kind: gvkOf("Job"), Operation: op, Object: runtime.RawExtension{Raw: raw}}
	if update {
		req.OldObject = runtime.RawExtension{Raw: raw}
	}
	var jcsBefore []*execution.JobConfig
	for _, x := range jcs {
		jcsBefore = append(jcsBefore, x.DeepCopy())
	}
	resp, err := hook.Handle(context.Background(), req)
	if err != nil {
		panic(err)
	}
	// what a Job receives depends on the request and on the JobConfig only, not on which Jobs
	// were admitted before it: a probe Job (ad-hoc, by configName) admitted now, on this
	// context, gets the same patch result as on a fresh context holding the JobConfigs as
	// they were before the first admission
	for k, x := range jcs {
		probe := &execution.Job{TypeMeta: metav1.TypeMeta{APIVersion: "execution.furiko.io/v1alpha1", Kind: "Job"},
			ObjectMeta: metav1.ObjectMeta{Namespace: "ns", Name: "probe"}}
		probe.Spec.ConfigName = x.Name
		praw, _ := json.Marshal(probe)
		preq := &admissionv1.AdmissionRequest{Kind: gvkOf("Job"), Operation: admissionv1.Create, Object: runtime.RawExtension{Raw: praw}}
		fresh := NewSimContext()
		for _, y := range jcsBefore {
			fresh.informers.JobConfigs.Set(y.DeepCopy())
		}
		if cfg, err := sc.Configs().Jobs(); err == nil {
			fresh.SetConfig(configv1alpha1.JobExecutionConfigName, cfg)
		}
		h1, _ := jobmutatingwebhook.NewWebhook(sc)
		h2, _ := jobmutatingwebhook.NewWebhook(fresh)
		r1, e1 := h1.Handle(context.Background(), preq)
		r2, e2 := h2.Handle(context.Background(), preq)
		if e1 != nil || e2 != nil || r1.Allowed != r2.Allowed {
			hit("C16/admission-result-depends-on-earlier-admissions", fmt.Sprintf("probe Job with configName %s: allowed %v / %v, errors %v / %v", x.Name, r1 != nil && r1.Allowed, r2 != nil && r2.Allowed, e1, e2))
			continue
		}
		if !r1.Allowed {
			continue
		}
		o1, pe1 := applyPatch(praw, r1)
		o2, pe2 := applyPatch(praw, r2)
		if pe1 != nil || pe2 != nil || !jsonEqual(o1, o2) {
			hit("C16/admission-result-depends-on-earlier-admissions", fmt.Sprintf("after the admission of %s, a Job created with configName %s receives %s; on a fresh controller with the same JobConfig it receives %s (JobConfig %d of the lister)", raw, x.Name, o1, o2, k))
		}
	}
	// the typed reference: what the mutator does to the decoded submission
	typed := &execution.Job{}
	if err := json.Unmarshal(raw, typed); err != nil {
		panic(err)
	}
	inTerm := mjobTerm(typed, valuesTerm)
	ref := typed.DeepCopy()
	refRes := mutation.NewJobPatcher(sc).Patch(op, typed, ref)
	outTerm := "None"
	accepted := resp.Allowed
	if accepted != (len(refRes.Errors) == 0) {
		hit("C16/webhook-and-mutator-disagree-on-admission", fmt.Sprintf("allowed=%v, mutator errors %v", accepted, refRes.Errors))
	}
	if patchCapture != nil && accepted && len(refRes.Errors) == 0 {
		patchCapture(typed, ref, resp.Patch)
	}
	_, userLabel := typed.Labels[jobconfig.LabelKeyJobConfigUID]
	if !accepted && op == admissionv1.Create && typed.Spec.ConfigName != "" && len(typed.OwnerReferences) == 0 && !userLabel {
		// a Job created with configName gets the owner reference and the UID label FROM the
		// JobConfig: being refused because of that very label / reference is never the user's fault
		for _, x := range jcs {
			if x.Name != typed.Spec.ConfigName {
				continue
			}
			for _, e := range refRes.Errors {
				if strings.Contains(e.Field, jobconfig.LabelKeyJobConfigUID) || strings.Contains(e.Field, "ownerReferences") {
					hit("C16/configname-job-refused-for-the-label-it-is-given", fmt.Sprintf("Job with configName %q refused: %v (JobConfig uid %s, template labels %v)", x.Name, e, x.UID, x.Spec.Template.Labels))
					break
				}
			}
		}
	}
	if accepted {
		patched, perr := applyPatch(raw, resp)
		if perr != nil {
			hit("C16/patch-does-not-apply", fmt.Sprintf("patch %s on %s: %v", resp.Patch, raw, perr))
		} else {
			got := &execution.Job{}
			if err := json.Unmarshal(patched, got); err != nil {
				panic(err)
			}
			js["patched"] = string(patched)
			outTerm = "(Some " + mjobTerm(got, "None") + ")"
			if !reflect.DeepEqual(normJob(got), normJob(ref)) {
				a, _ := json.Marshal(got)
				b, _ := json.Marshal(ref)
				hit("C16/patch-unfaithful", fmt.Sprintf("patched object %s, defaulted object %s", a, b))
			}
			// idempotence: submitting the defaulted object again changes nothing
			req2 := &admissionv1.AdmissionRequest{Kind: gvkOf("Job"), Operation: op, Object: runtime.RawExtension{Raw: patched}}
			if update {
				req2.OldObject = runtime.RawExtension{Raw: raw}
			}
			resp2, err := hook.Handle(context.Background(), req2)
			if err != nil {
				panic(err)
			}
			if !resp2.Allowed {
				hit("C16/defaulted-object-rejected-on-resubmission", fmt.Sprint(resp2.Result))
			} else if again, err := applyPatch(patched, resp2); err != nil || !jsonEqual(again, patched) {
				hit("C16/not-idempotent", fmt.Sprintf("second patch %s", resp2.Patch))
			}
			// the property's list of defaults, straight from the text
			if op == admissionv1.Create && !containsStr(got.Finalizers, finalizer) {
				hit("C16/finalizer-missing", fmt.Sprint(got.Finalizers))
			}
			if got.Spec.Type == "" || got.Spec.Template == nil || got.Spec.Template.MaxAttempts == nil ||
				(got.Spec.Template.TaskTemplate.Pod != nil && got.Spec.Template.TaskTemplate.Pod.Spec.RestartPolicy == "") {
				hit("C16/default-missing", fmt.Sprintf("type=%q template=%+v", got.Spec.Type, got.Spec.Template))
			}
			if op == admissionv1.Create && typed.Spec.ConfigName != "" {
				var jc *execution.JobConfig
				for _, x := range jcs {
					if x.Name == typed.Spec.ConfigName {
						jc = x
					}
				}
				if jc == nil {
					hit("C16/unknown-configname-admitted", typed.Spec.ConfigName)
				} else {
					oref := metav1.GetControllerOf(got)
					if oref == nil || oref.UID != jc.UID || got.Labels[jobconfig.LabelKeyJobConfigUID] != string(jc.UID) {
						hit("C16/configname-owner-or-label-wrong", fmt.Sprintf("owner %+v label %q, JobConfig uid %s", oref, got.Labels[jobconfig.LabelKeyJobConfigUID], jc.UID))
					}
					want := jc.Spec.Concurrency.Policy
					if typed.Spec.StartPolicy != nil && typed.Spec.StartPolicy.ConcurrencyPolicy != "" {
						want = typed.Spec.StartPolicy.ConcurrencyPolicy
					}
					if got.Spec.StartPolicy == nil || got.Spec.StartPolicy.ConcurrencyPolicy != want {
						hit("C16/configname-concurrency-policy-wrong", fmt.Sprintf("startPolicy %+v, expected policy %s", got.Spec.StartPolicy, want))
					}
					if got.Spec.ConfigName != "" {
						hit("C16/configname-not-cleared", got.Spec.ConfigName)
					}
					for k, v := range typed.Spec.Substitutions {
						if got.Spec.Substitutions[k] != v {
							hit("C16/explicit-substitution-lost", fmt.Sprintf("%s: submitted %q, stored %q", k, v, got.Spec.Substitutions[k]))
						}
					}
				}
			}
		}
	}
	// date oracle: none of the generated options is a date with a value
	term := ""
	if update {
		term = CApp("MJobUpdate", dynTerm(sc), inTerm, outTerm)
	} else {
		term = CApp("MJobCreate", "[]", dynTerm(sc), CList(jcTerms), CBool(bad), inTerm, outTerm)
	}
	res.Distribution[fmt.Sprintf("job-%s-allowed-%v", op, accepted)]++
	res.Add(term, js, term, accepted && len(resp.Patch) > 0)
	_ = options.MakeOptionVariableName
}

func containsStr(l []string, s string) bool {
	for _, x := range l {
		if x == s {
			return true
		}
	}
	return false
}

func jsonEqual(a, b []byte) bool {
	var x, y interface{}
	if json.Unmarshal(a, &x) != nil || json.Unmarshal(b, &y) != nil {
		return false
	}
	return reflect.DeepEqual(x, y)
}

// normJob: through JSON, so that nil and empty collections compare equal
func normJob(j *execution.Job) interface{} {
	b, _ := json.Marshal(j)
	var x interface{}
	_ = json.Unmarshal(b, &x)
	return x
}

func mjoTerm(rjc *execution.JobConfig, schedID int64) string {
	var opts []string
	for _, o := range optionsOf(rjc) {
		opts = append(opts, optTermOf(o))
	}
	sched := "None"
	if s := rjc.Spec.Schedule; s != nil {
		sched = "(Some " + CPair(CZ(schedID), COptZ(mtz(s.LastUpdated))) + ")"
	}
	return CApp("mkMJO", CList(opts), tmplTerm(&rjc.Spec.Template.Spec), sched)
}

func mutJobConfigCase(c *PRNG, res *Result, sc *SimContext) {
	js := map[string]interface{}{}
	hit := func(sig, what string) { res.Hits = append(res.Hits, MonitorHit{"C16", sig, what, js}) }
	now := int64(1700000000)
	mutation.Clock = clocktesting.NewFakeClock(time.Unix(now, 0))
	mk := func() *execution.JobConfig {
		rjc := &execution.JobConfig{TypeMeta: metav1.TypeMeta{APIVersion: "execution.furiko.io/v1alpha1", Kind: "JobConfig"},
			ObjectMeta: metav1.ObjectMeta{Namespace: "ns", Name: "jc"}}
		rjc.Spec.Concurrency.Policy = "Forbid"
		rjc.Spec.Template.Spec = genJobTemplate(c, true)
		if c.Chance(2, 3) {
			rjc.Spec.Option = &execution.OptionSpec{}
			for n := 0; n < 1+c.Intn(3); n++ {
				o, _ := genOption(c, []string{"a", "b", "c"}[n])
				makeOptionValid(c, &o)
				if o.Type == execution.OptionTypeBool && c.Chance(1, 3) {
					o.Bool = nil // the mutator allocates it
				}
				rjc.Spec.Option.Options = append(rjc.Spec.Option.Options, o)
			}
		}
		return rjc
	}
	scheds := []func() *execution.ScheduleSpec{
		func() *execution.ScheduleSpec { return nil },
		func() *execution.ScheduleSpec {
			return &execution.ScheduleSpec{Cron: &execution.CronSchedule{Expression: "0 * * * *"}}
		},
		func() *execution.ScheduleSpec {
			return &execution.ScheduleSpec{Cron: &execution.CronSchedule{Expression: "5 * * * *"}}
		},
		func() *execution.ScheduleSpec {
			return &execution.ScheduleSpec{Cron: &execution.CronSchedule{Expression: "0 * * * *"}, Disabled: true}
		},
		func() *execution.ScheduleSpec {
			return &execution.ScheduleSpec{Cron: &execution.CronSchedule{Expression: "0 * * * *"}, Constraints: &execution.ScheduleContraints{NotBefore: mtp(ip(now + 5))}}
		},
	}
	lus := []*int64{nil, ip(now - 500), ip(now), ip(now + 500)}
	rjc := mk()
	sid := c.Intn(len(scheds))
	rjc.Spec.Schedule = scheds[sid]()
	if rjc.Spec.Schedule != nil {
		rjc.Spec.Schedule.LastUpdated = mtp(Pick(c, lus))
	}
	update := c.Chance(1, 2)
	op := admissionv1.Create
	var old *execution.JobConfig
	oldSid := sid
	if update {
		op = admissionv1.Update
		old = rjc.DeepCopy()
		if c.Chance(2, 3) {
			oldSid = c.Intn(len(scheds))
		}
		old.Spec.Schedule = scheds[oldSid]()
		if old.Spec.Schedule != nil {
			old.Spec.Schedule.LastUpdated = mtp(Pick(c, lus))
		}
		if c.Bool() {
			old.Spec.Concurrency.Policy = "Allow" // an unrelated change
		}
	}
	raw := rawOf(c, rjc)
	hook, _ := jobconfigmutatingwebhook.NewWebhook(sc)
	req := &admissionv1.AdmissionRequest{Kind: gvkOf("JobConfig"), Operation: op, Object: runtime.RawExtension{Raw: raw}}
	if update {
		req.OldObject = runtime.RawExtension{Raw: rawOf(c, old)}
	}
	js["op"], js["raw"], js["old"] = op, string(raw), old
	resp, err := hook.Handle(context.Background(), req)
	if err != nil {
		panic(err)
	}
	if !resp.Allowed {
		hit("C16/jobconfig-defaulting-rejected", fmt.Sprint(resp.Result))
		return
	}
	patched, perr := applyPatch(raw, resp)
	if perr != nil {
		hit("C16/patch-does-not-apply", fmt.Sprintf("patch %s on %s: %v", resp.Patch, raw, perr))
		return
	}
	js["patched"] = string(patched)
	typed := &execution.JobConfig{}
	_ = json.Unmarshal(raw, typed)
	ref := typed.DeepCopy()
	mutation.NewJobConfigPatcher(sc).Patch(op, old, ref)
	if patchCapture != nil {
		patchCapture(typed, ref, resp.Patch)
	}
	got := &execution.JobConfig{}
	if err := json.Unmarshal(patched, got); err != nil {
		panic(err)
	}
	ga, _ := json.Marshal(got)
	rb, _ := json.Marshal(ref)
	if !jsonEqual(ga, rb) {
		hit("C16/patch-unfaithful", fmt.Sprintf("patched object %s, defaulted object %s", ga, rb))
	}
	req2 := &admissionv1.AdmissionRequest{Kind: gvkOf("JobConfig"), Operation: op, Object: runtime.RawExtension{Raw: patched}, OldObject: req.OldObject}
	resp2, err := hook.Handle(context.Background(), req2)
	if err != nil {
		panic(err)
	}
	if again, err := applyPatch(patched, resp2); !resp2.Allowed || err != nil || !jsonEqual(again, patched) {
		hit("C16/not-idempotent", fmt.Sprintf("second patch %s", resp2.Patch))
	}
	// lastUpdated is stamped exactly when the schedule is created or changed
	if s := got.Spec.Schedule; s != nil {
		inLU := mtz(typed.Spec.Schedule.LastUpdated)
		changed := !update || old.Spec.Schedule == nil || oldSid != sid
		future := inLU != nil && *inLU > now
		switch {
		case changed && !future && (s.LastUpdated == nil || s.LastUpdated.Unix() != now):
			hit("C16/last-updated-not-stamped", fmt.Sprintf("schedule created/changed but lastUpdated=%v", fmtp(mtz(s.LastUpdated))))
		case !changed && fmtp(mtz(s.LastUpdated)) != fmtp(inLU):
			hit("C16/last-updated-stamped-without-change", fmt.Sprintf("schedule unchanged but lastUpdated went from %v to %v", fmtp(inLU), fmtp(mtz(s.LastUpdated))))
		}
	}
	var term string
	if update {
		term = CApp("MJCUpdate", dynTerm(sc), CZ(now), mjoTerm(old, int64(oldSid)), mjoTerm(typed, int64(sid)), mjoTerm(got, int64(sid)))
	} else {
		term = CApp("MJCCreate", dynTerm(sc), CZ(now), mjoTerm(typed, int64(sid)), mjoTerm(got, int64(sid)))
	}
	res.Distribution[fmt.Sprintf("jobconfig-%s", op)]++
	res.Add(term, js, term, len(resp.Patch) > 0)
	_ = strings.TrimSpace
}
