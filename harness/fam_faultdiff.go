package main

import (
	"fmt"
	"sort"
	"strconv"
	"strings"

	corev1 "k8s.io/api/core/v1"

	"k8s.io/utils/pointer"

	execution "github.com/furiko-io/furiko/apis/execution/v1alpha1"
)

// Family "faultdiff" (C20): the same workload is run twice on the real controllers - once
// with a finite pattern of injected API failures and conflicts, once without - both are
// driven to quiescence, and the final observable API state is compared.  Three worlds:
// cron reconciler (Jobs created), jobconfig status controller (status), admission queue
// (Jobs started / refused).  The faulty cron-reconciler run is also emitted as a model case.

func init() {
	register(&Family{Name: "faultdiff", Run: runFaultDiff, CheckModule: "Cases.ReconCheck", CaseOK: "recon_ok"})
}

func runFaultDiff(ctx *RunCtx) *Result {
	res := NewResult()
	p := NewPRNG(ctx.Seed)
	for i := 0; i < ctx.N; i++ {
		c := p.Fork()
		js := map[string]interface{}{}
		hit := func(sig, what string) { res.Hits = append(res.Hits, MonitorHit{"C20", sig, what, js}) }

		// ---------- cron reconciler ----------
		{
			var env []rOp
			names := []string{"jc", "a.b", "nightly.v2"}
			for k, n := range names {
				if k > 0 && c.Bool() {
					continue
				}
				env = append(env, rOp{Kind: "setjc", Name: n, UID: "uid-" + n, Forbid: c.Chance(1, 4), MaxC: 1, Queued: 0})
			}
			env = append(env, rOp{Kind: "setactive", N: int64(c.Intn(2))})
			var reqs []string
			for k := 0; k < 2+c.Intn(6); k++ {
				reqs = append(reqs, Pick(c, names)+"."+strconv.FormatInt(Pick(c, []int64{1700000000, 1700000060, 1700000120}), 10))
			}
			run := func(faulty bool, fc *PRNG) (*rImpl, []rOp, []string) {
				im := newRImpl()
				var ops []rOp
				var obs []string
				do := func(o rOp) {
					ops = append(ops, o)
					im.apply(o)
					obs = append(obs, im.obsTerm())
				}
				for _, o := range env {
					do(o)
				}
				for _, k := range reqs {
					do(rOp{Kind: "request", Key: k})
					for n := fc.Intn(4); n > 0; n-- {
						switch r := fc.Intn(10); {
						case r < 3 && faulty:
							do(rOp{Kind: "fault", Fault: "server"})
						case r < 6:
							do(rOp{Kind: "work"})
						case r < 8:
							do(rOp{Kind: "advance"})
						default:
							do(rOp{Kind: "fire"})
						}
					}
				}
				for round := 0; round < 40 && (len(im.pending) > 0 || len(im.q.Delayed) > 0 || im.q.Len() > 0); round++ {
					for len(im.pending) > 0 {
						do(rOp{Kind: "advance"})
					}
					for n := len(im.q.Delayed); n > 0; n-- {
						do(rOp{Kind: "fire"})
					}
					for n := im.q.Len(); n > 0; n-- {
						do(rOp{Kind: "work"})
					}
				}
				return im, ops, obs
			}
			fc := c.Fork()
			imA, opsA, obsA := run(true, fc)
			imB, _, _ := run(false, c.Fork())
			view := func(im *rImpl) []string {
				var out []string
				for _, j := range im.api {
					on, ou, l, a, f := jobIdentity(j)
					out = append(out, fmt.Sprint(j.Name, on, ou, l, a, f))
				}
				sort.Strings(out)
				return out
			}
			js["recon_env"], js["recon_requests"], js["recon_faulty_ops"] = env, reqs, opsA
			if imA.q.Len() > 0 || len(imA.q.Delayed) > 0 {
				hit("C20/cron-reconciler-does-not-quiesce", fmt.Sprintf("after the failures stopped: %d faults unconsumed, queue %v delayed %v", len(imA.faults), imA.q.ready, imA.q.Delayed))
			} else if fmt.Sprint(view(imA)) != fmt.Sprint(view(imB)) {
				hit("C20/cron-reconciler-outcome-differs", fmt.Sprintf("with failures: %v; without: %v", view(imA), view(imB)))
			}
			var opTerms []string
			for _, o := range opsA {
				opTerms = append(opTerms, o.coq())
			}
			nf := 0
			for _, o := range opsA {
				if o.Kind == "fault" {
					nf++
				}
			}
			res.Distribution["recon-faults"] += nf
			res.Add(CApp("mkReconCase", CList(opTerms), CList(obsA)), js, fmt.Sprint(opsA), nf > 0 && len(imA.api) > 0)
		}

		// ---------- jobconfig status controller ----------
		{
			type ev struct{ o sOp }
			var life []sOp
			now := int64(1700000000)
			nextID := int64(1)
			var ids []int64
			deleted := false
			for k := 0; k < 4+c.Intn(14); k++ {
				now += int64(c.Intn(5))
				switch r := c.Intn(10); {
				case r < 4:
					o := sOp{Kind: "create", ID: nextID, Owned: !c.Chance(1, 6), T: now, Phase: string(execution.JobQueued)}
					if c.Bool() {
						o.Sched = ip(now - int64(c.Intn(100)))
					}
					ids = append(ids, nextID)
					nextID++
					life = append(life, o)
				case r < 6 && len(ids) > 0:
					life = append(life, sOp{Kind: "start", ID: Pick(c, ids), T: now})
				case r < 8 && len(ids) > 0:
					life = append(life, sOp{Kind: "phase", ID: Pick(c, ids), Phase: Pick(c, append(append([]string{}, livePhases...), termPhases...))})
				case r < 9 && len(ids) > 0:
					life = append(life, sOp{Kind: "delete", ID: Pick(c, ids)})
					deleted = true
				default:
					life = append(life, sOp{Kind: "setcron", Cron: Pick(c, []string{"", "enabled", "disabled"})})
				}
			}
			run := func(faulty bool, fc *PRNG) *sImpl {
				im := newSImpl("enabled", nil, nil)
				for _, o := range life {
					im.apply(o)
					for n := fc.Intn(4); n > 0; n-- {
						switch r := fc.Intn(10); {
						case r < 3 && faulty:
							im.apply(sOp{Kind: "fault"})
						case r < 5:
							im.apply(sOp{Kind: "deliverjob"})
						case r < 7:
							im.apply(sOp{Kind: "deliverjc"})
						case r < 9:
							im.apply(sOp{Kind: "work"})
						default:
							im.apply(sOp{Kind: "fire"})
						}
					}
				}
				for round := 0; round < 60 && (len(im.jobEv) > 0 || len(im.jcEv) > 0 || len(im.q.Delayed) > 0 || im.q.Len() > 0); round++ {
					for len(im.jobEv) > 0 {
						im.apply(sOp{Kind: "deliverjob"})
					}
					for len(im.jcEv) > 0 {
						im.apply(sOp{Kind: "deliverjc"})
					}
					for len(im.q.Delayed) > 0 {
						im.apply(sOp{Kind: "fire"})
					}
					for im.q.Len() > 0 {
						im.apply(sOp{Kind: "work"})
					}
				}
				return im
			}
			imA, imB := run(true, c.Fork()), run(false, c.Fork())
			view := func(im *sImpl) string {
				st := im.apiJC.Status
				s := fmt.Sprint(refsTerm(st.ActiveJobs), refsTerm(st.QueuedJobs), st.Active, st.Queued, st.State)
				if !deleted {
					s += fmt.Sprint(fmtp(mtz(st.LastScheduled)), fmtp(mtz(st.LastExecuted)))
				}
				return s
			}
			js["status_lifecycle"] = life
			if imA.q.Len() > 0 || len(imA.q.Delayed) > 0 {
				hit("C20/jobconfig-controller-does-not-quiesce", fmt.Sprintf("faults left %d, queue %d, delayed %d", imA.faults, imA.q.Len(), len(imA.q.Delayed)))
			} else if view(imA) != view(imB) {
				hit("C20/jobconfig-status-outcome-differs", fmt.Sprintf("with failures: %s; without: %s", view(imA), view(imB)))
			}
		}

		// ---------- job controller ----------
		{
			// a Job whose tasks follow a fixed outcome plan (per index and attempt: succeed or
			// fail); the kubelet advances every live Pod one step per round, whenever it exists
			m := &mJob{Shape: "count", Count: int64(1 + c.Intn(3)), MaxAttempts: int64(1 + c.Intn(2)), Finalizer: true,
				Strategy: Pick(c, []string{"", "All", "Any"})}
			if c.Chance(1, 4) {
				m = &mJob{Shape: "none", MaxAttempts: int64(1 + c.Intn(3)), Finalizer: true}
			}
			m.init()
			plan := map[string]bool{} // task name -> fails
			for _, h := range m.Hashes {
				for r := int64(0); r < m.MaxAttempts; r++ {
					plan[taskName(h, r)] = c.Chance(1, 3)
				}
			}
			ttl := int64(1000000)
			if c.Chance(1, 4) {
				ttl = 60 // finished Jobs are cleaned up within the run
			}
			cfgJ := jsCfg{Pending: ip(900), Force: ip(900), TTL: ip(ttl)}
			run := func(faulty bool, fc *PRNG) (*jsImpl, bool) {
				now := int64(1700000000)
				im := newJSImpl(cfgJ, m, now)
				im.q.Now = im.api.now
				im.apply(jsOp{Kind: "start"}, m)
				// the Job's key is worked when the informer handlers or a due timer put it on the queue,
				// or when the previous pass failed (reconciler.Controller re-adds it: see the recon part)
				key := "ns/" + jobName
				// and at every informer resync (10 minutes by default), whose update event enqueues it
				lastFailed, idle, lastResync := false, 0, now
				for round := 0; round < 200; round++ {
					im.apply(jsOp{Kind: "advjob", N: 1000}, m)
					im.apply(jsOp{Kind: "advpods", N: 1000}, m)
					if round == 25 {
						im.api.faults = nil // the failures stop
					}
					if faulty && round < 25 && fc.Chance(1, 3) {
						im.apply(jsOp{Kind: "fault", Fault: Pick(fc, []string{"create-pod", "update-status", "update-status", "update-job", "delete-pod", "delete-job"})}, m)
					}
					im.q.FireDue(im.api.now())
					if im.api.now()-lastResync >= 600 {
						lastResync = im.api.now()
						if cj, _ := im.jctx.Informers().Furiko().Execution().V1alpha1().Jobs().Lister().Jobs("ns").Get(jobName); cj != nil {
							im.q.Add(key)
						}
					}
					worked := false
					if im.q.HasReady(key) || lastFailed {
						for im.q.Len() > 0 {
							k, _ := im.q.Get()
							im.q.Done(k)
						}
						obs := im.apply(jsOp{Kind: "sync"}, m)
						lastFailed = !obs.OK
						worked = len(obs.Actions) > 0 || lastFailed
					}
					progressed := false
					for _, pd := range im.api.listPods() {
						switch {
						case pd.DeletionTimestamp != nil:
							im.apply(jsOp{Kind: "kubelet", Name: pd.Name, Step: "terminate"}, m)
							progressed = true
						case pd.Spec.NodeName == "" && !im.api.scheduled[pd.Name]:
							im.apply(jsOp{Kind: "kubelet", Name: pd.Name, Step: "schedule"}, m)
							progressed = true
						case pd.Status.Phase == corev1.PodPending || pd.Status.Phase == "":
							im.apply(jsOp{Kind: "kubelet", Name: pd.Name, Step: "run"}, m)
							progressed = true
						case pd.Status.Phase == corev1.PodRunning:
							step := "succeed"
							if plan[pd.Name] {
								step = "fail"
							}
							im.apply(jsOp{Kind: "kubelet", Name: pd.Name, Step: step}, m)
							progressed = true
						}
					}
					im.apply(jsOp{Kind: "clock", T: im.api.now() + 20}, m)
					if !worked && !progressed && round > 25 && len(im.api.podEv) == 0 && len(im.api.jobEv) == 0 {
						idle++
						if idle > 65 { // two resync periods with nothing to do
							return im, true
						}
					} else {
						idle = 0
					}
				}
				return im, false
			}
			imA, okA := run(true, c.Fork())
			imB, okB := run(false, c.Fork())
			view := func(im *jsImpl) string {
				rj := im.api.getJob(jobName)
				if rj == nil {
					return "job-gone pods=" + fmt.Sprint(len(im.api.listPods()))
				}
				var refs []string
				for _, r := range rj.Status.Tasks {
					refs = append(refs, fmt.Sprint(r.Name, r.Status.Result))
				}
				sort.Strings(refs)
				return fmt.Sprint(rj.Status.Phase, refs, len(im.api.listPods()))
			}
			js["job_shape"], js["job_plan"] = m, plan
			if !okB {
				res.Count("jobctl-fault-free-run-not-quiescent")
			} else if !okA {
				hit("C20/job-controller-does-not-quiesce", fmt.Sprintf("after the failures stopped the Job world keeps changing: %s", view(imA)))
			} else {
				// when the Job ends early (one index decides the result and the others are killed) the
				// per-task results depend on timing, which failures legitimately change: compare phases
				va, vb := view(imA), view(imB)
				if strings.Contains(va, "Killed") || strings.Contains(vb, "Killed") {
					va, vb = strings.SplitN(va, "[", 2)[0], strings.SplitN(vb, "[", 2)[0]
					res.Count("jobctl-compared-phase-only")
				}
				if va != vb {
					hit("C20/job-outcome-differs", fmt.Sprintf("with failures: %s; without: %s", view(imA), view(imB)))
				}
			}
			res.Count("jobctl-final-" + strings.SplitN(strings.SplitN(view(imB), " ", 2)[0], "[", 2)[0])
		}

		// ---------- admission queue ----------
		{
			now := int64(1700000000)
			max := pointer.Int64(Pick(c, []int64{1, 2, 3}))
			var creates []qOp
			for k := 0; k < 2+c.Intn(5); k++ {
				creates = append(creates, qOp{Kind: "create", ID: int64(k + 1), T: now + int64(k) + 1, Owned: true,
					Policy: Pick(c, []string{"", "Allow", "Forbid", "Enqueue", "Enqueue"})})
			}
			run := func(faulty bool, fc *PRNG) *qImpl {
				im := newQImpl(now, max)
				im.apply(qOp{Kind: "clock", T: now + 60})
				for _, o := range creates {
					im.apply(o)
				}
				settle := func() {
					im.apply(qOp{Kind: "advcache", N: 1000})
					im.apply(qOp{Kind: "store", N: 1000})
					im.apply(qOp{Kind: "wake", N: 1000})
				}
				nf := 0
				for k := 0; k < 3+len(creates); k++ {
					if faulty && fc.Chance(1, 2) {
						im.apply(qOp{Kind: "fault", Fault: Pick(fc, []string{"start", "start", "reject"})})
						nf++
					}
					settle()
					im.apply(qOp{Kind: "sync"})
				}
				for k := 0; k < nf+len(creates)+3; k++ {
					settle()
					im.apply(qOp{Kind: "sync"})
				}
				settle()
				return im
			}
			imA, imB := run(true, c.Fork()), run(false, c.Fork())
			view := func(im *qImpl) string {
				var o qObs
				o.OK = true
				im.view(&o)
				// started (yes/no), terminal, admission error per Job; the counter
				var s []string
				for _, j := range o.Jobs {
					started := int64(0)
					if j[1] != 0 {
						started = 1
					}
					s = append(s, fmt.Sprint(j[0], started, j[2], j[3]))
				}
				return fmt.Sprint(s, o.Counter)
			}
			js["queue_max"], js["queue_creates"] = max, creates
			if view(imA) != view(imB) {
				hit("C20/queue-outcome-differs", fmt.Sprintf("with failures: %s; without: %s", view(imA), view(imB)))
			}
		}
	}
	return res
}
