package main

import (
	"fmt"
	"sort"
	"sync"
	"time"

	corev1 "k8s.io/api/core/v1"
	apierrors "k8s.io/apimachinery/pkg/api/errors"
	metav1 "k8s.io/apimachinery/pkg/apis/meta/v1"
	"k8s.io/apimachinery/pkg/runtime"
	"k8s.io/apimachinery/pkg/runtime/schema"
	"k8s.io/apimachinery/pkg/types"
	k8stesting "k8s.io/client-go/testing"
	clocktesting "k8s.io/utils/clock/testing"

	execution "github.com/furiko-io/furiko/apis/execution/v1alpha1"
	"github.com/furiko-io/furiko/pkg/utils/ktime"
)

// SimAPI makes the fake clientsets behave like the API server in the respects the
// controllers rely on (DESIGN.md section 3): name uniqueness, optimistic concurrency,
// the status sub-resource split, finalizer-gated deletion, graceful Pod deletion,
// second-precision timestamps, one-shot injected faults. Every mutation is appended
// to a per-kind event log; the informer caches advance only when the harness applies
// events from those logs.
type SimAPI struct {
	sc    *SimContext
	clk   *clocktesting.FakeClock
	rv    int64
	ns    string
	podEv []simPodEvent
	jobEv []simJobEvent

	faults    []string
	actions   []simAction
	scheduled map[string]bool
	uidn      int

	deleteFaultUsed bool
	passDeleteEv    []simPodEvent
	mu              sync.Mutex
	big             sync.Mutex // serialises the reactors (deletes of one sweep run in goroutines)
}

type simPodEvent struct {
	pod  *corev1.Pod // nil: delete
	name string
}
type simJobEvent struct {
	job  *execution.Job // nil: delete
	name string
}
type simAction struct {
	Verb    string `json:"verb"`
	Name    string `json:"name"`
	Force   bool   `json:"force,omitempty"`
	Outcome int64  `json:"outcome"`
}

var podGVR = schema.GroupVersionResource{Version: "v1", Resource: "pods"}
var jobGVR = schema.GroupVersionResource{Group: "execution.furiko.io", Version: "v1alpha1", Resource: "jobs"}

func NewSimAPI(sc *SimContext, now int64) *SimAPI {
	a := &SimAPI{sc: sc, clk: clocktesting.NewFakeClock(time.Unix(now, 0)), ns: "ns", scheduled: map[string]bool{}, rv: 0}
	ktime.Clock = a.clk
	kc := sc.clientsets.KubernetesMock()
	fc := sc.clientsets.FurikoMock()
	kc.PrependReactor("create", "pods", a.reactCreatePod)
	kc.PrependReactor("delete", "pods", a.reactDeletePod)
	fc.PrependReactor("update", "jobs", a.reactUpdateJob)
	fc.PrependReactor("delete", "jobs", a.reactDeleteJob)
	return a
}

func (a *SimAPI) now() int64 { return a.clk.Now().Unix() }

func (a *SimAPI) takeFault(f string) bool {
	for i, x := range a.faults {
		if x == f {
			a.faults = append(a.faults[:i:i], a.faults[i+1:]...)
			return true
		}
	}
	return false
}

func (a *SimAPI) hasFault(f string) bool {
	for _, x := range a.faults {
		if x == f {
			return true
		}
	}
	return false
}

// EndPass consumes a delete fault that was hit during the pass.
func (a *SimAPI) EndPass() {
	sort.SliceStable(a.passDeleteEv, func(i, j int) bool { return a.passDeleteEv[i].name < a.passDeleteEv[j].name })
	a.podEv = append(a.podEv, a.passDeleteEv...)
	a.passDeleteEv = nil
	if a.deleteFaultUsed {
		a.takeFault("delete-pod")
		a.deleteFaultUsed = false
	}
}

func (a *SimAPI) record(verb, name string, force bool, outcome int64) {
	a.mu.Lock()
	defer a.mu.Unlock()
	a.actions = append(a.actions, simAction{verb, name, force, outcome})
}

// ---- pods ----

func (a *SimAPI) getPod(name string) *corev1.Pod {
	obj, err := a.sc.clientsets.KubernetesMock().Tracker().Get(podGVR, a.ns, name)
	if err != nil {
		return nil
	}
	return obj.(*corev1.Pod)
}

func (a *SimAPI) listPods() []*corev1.Pod {
	obj, err := a.sc.clientsets.KubernetesMock().Tracker().List(podGVR, schema.GroupVersionKind{Version: "v1", Kind: "Pod"}, a.ns)
	if err != nil {
		panic(err)
	}
	var out []*corev1.Pod
	for i := range obj.(*corev1.PodList).Items {
		out = append(out, obj.(*corev1.PodList).Items[i].DeepCopy())
	}
	sort.Slice(out, func(i, j int) bool { return out[i].Name < out[j].Name })
	return out
}

func (a *SimAPI) putPod(p *corev1.Pod) {
	if err := a.sc.clientsets.KubernetesMock().Tracker().Update(podGVR, p, a.ns); err != nil {
		panic(err)
	}
	a.podEv = append(a.podEv, simPodEvent{pod: p.DeepCopy(), name: p.Name})
}

func (a *SimAPI) removePod(name string) {
	if err := a.sc.clientsets.KubernetesMock().Tracker().Delete(podGVR, a.ns, name); err != nil {
		panic(err)
	}
	a.podEv = append(a.podEv, simPodEvent{name: name})
}

func (a *SimAPI) createPodRaw(p *corev1.Pod) error {
	a.uidn++
	p.UID = types.UID(fmt.Sprintf("pod-uid-%d", a.uidn))
	p.CreationTimestamp = metav1.NewTime(time.Unix(a.now(), 0).UTC())
	if err := a.sc.clientsets.KubernetesMock().Tracker().Create(podGVR, p, a.ns); err != nil {
		return err
	}
	a.podEv = append(a.podEv, simPodEvent{pod: p.DeepCopy(), name: p.Name})
	return nil
}

func (a *SimAPI) reactCreatePod(action k8stesting.Action) (bool, runtime.Object, error) {
	a.big.Lock()
	defer a.big.Unlock()
	p := action.(k8stesting.CreateAction).GetObject().(*corev1.Pod).DeepCopy()
	if a.takeFault("create-pod") {
		a.record("create", p.Name, false, 3)
		return true, nil, apierrors.NewInternalError(fmt.Errorf("injected"))
	}
	if a.takeFault("create-pod-invalid") {
		a.record("create", p.Name, false, 2)
		return true, nil, apierrors.NewInvalid(schema.GroupKind{Kind: "Pod"}, p.Name, nil)
	}
	p.Status.Phase = corev1.PodPending
	if err := a.createPodRaw(p); err != nil {
		if apierrors.IsAlreadyExists(err) {
			a.record("create", p.Name, false, 1)
		} else {
			a.record("create", p.Name, false, 3)
		}
		return true, nil, err
	}
	a.record("create", p.Name, false, 0)
	return true, p, nil
}

func (a *SimAPI) reactDeletePod(action k8stesting.Action) (bool, runtime.Object, error) {
	a.big.Lock()
	defer a.big.Unlock()
	da := action.(k8stesting.DeleteAction)
	name := da.GetName()
	force := false
	if di, ok := action.(k8stesting.DeleteActionImpl); ok && di.DeleteOptions.GracePeriodSeconds != nil && *di.DeleteOptions.GracePeriodSeconds == 0 {
		force = true
	}
	if a.hasFault("delete-pod") {
		// fails every Pod delete of the pass; consumed by EndPass
		a.deleteFaultUsed = true
		a.record("delete", name, force, 3)
		return true, nil, apierrors.NewInternalError(fmt.Errorf("injected"))
	}
	p := a.getPod(name)
	if p == nil {
		a.record("delete", name, force, 1)
		return true, nil, apierrors.NewNotFound(schema.GroupResource{Resource: "pods"}, name)
	}
	a.record("delete", name, force, 0)
	// the event-log order of one pass's concurrent deletes is fixed to ascending name
	mark := len(a.podEv)
	if force || !a.scheduled[name] {
		a.removePod(name)
	} else if p.DeletionTimestamp == nil {
		t := metav1.NewTime(time.Unix(a.now()+30, 0).UTC())
		p = p.DeepCopy()
		p.DeletionTimestamp = &t
		a.putPod(p)
	}
	a.passDeleteEv = append(a.passDeleteEv, a.podEv[mark:]...)
	a.podEv = a.podEv[:mark]
	return true, nil, nil
}

// ---- jobs ----

func (a *SimAPI) getJob(name string) *execution.Job {
	obj, err := a.sc.clientsets.FurikoMock().Tracker().Get(jobGVR, a.ns, name)
	if err != nil {
		return nil
	}
	return obj.(*execution.Job)
}

func (a *SimAPI) listJobs() []*execution.Job {
	obj, err := a.sc.clientsets.FurikoMock().Tracker().List(jobGVR, schema.GroupVersionKind{Group: "execution.furiko.io", Version: "v1alpha1", Kind: "Job"}, a.ns)
	if err != nil {
		panic(err)
	}
	var out []*execution.Job
	for i := range obj.(*execution.JobList).Items {
		out = append(out, obj.(*execution.JobList).Items[i].DeepCopy())
	}
	sort.Slice(out, func(i, j int) bool { return out[i].Name < out[j].Name })
	return out
}

func (a *SimAPI) storeJob(j *execution.Job, create bool) {
	a.rv++
	j.ResourceVersion = fmt.Sprint(a.rv)
	var err error
	if create {
		err = a.sc.clientsets.FurikoMock().Tracker().Create(jobGVR, j, a.ns)
	} else {
		err = a.sc.clientsets.FurikoMock().Tracker().Update(jobGVR, j, a.ns)
	}
	if err != nil {
		panic(err)
	}
	a.jobEv = append(a.jobEv, simJobEvent{job: j.DeepCopy(), name: j.Name})
}

func (a *SimAPI) removeJob(name string) {
	a.rv++
	if err := a.sc.clientsets.FurikoMock().Tracker().Delete(jobGVR, a.ns, name); err != nil {
		panic(err)
	}
	a.jobEv = append(a.jobEv, simJobEvent{name: name})
}

func (a *SimAPI) reactUpdateJob(action k8stesting.Action) (bool, runtime.Object, error) {
	a.big.Lock()
	defer a.big.Unlock()
	ua := action.(k8stesting.UpdateAction)
	nj := ua.GetObject().(*execution.Job).DeepCopy()
	status := ua.GetSubresource() == "status"
	verb, fault := "update-job", "update-job"
	if status {
		verb, fault = "update-status", "update-status"
	}
	if a.takeFault(fault) {
		a.record(verb, nj.Name, false, 3)
		return true, nil, apierrors.NewInternalError(fmt.Errorf("injected"))
	}
	cur := a.getJob(nj.Name)
	if cur == nil {
		a.record(verb, nj.Name, false, 3)
		return true, nil, apierrors.NewNotFound(schema.GroupResource{Resource: "jobs"}, nj.Name)
	}
	if nj.ResourceVersion != cur.ResourceVersion {
		a.record(verb, nj.Name, false, 2)
		return true, nil, apierrors.NewConflict(schema.GroupResource{Resource: "jobs"}, nj.Name, fmt.Errorf("the object has been modified"))
	}
	stored := cur.DeepCopy()
	if status {
		stored.Status = *nj.Status.DeepCopy()
	} else {
		st := stored.Status
		dt := stored.DeletionTimestamp
		uid := stored.UID
		stored = nj.DeepCopy()
		stored.Status = st
		stored.DeletionTimestamp = dt
		stored.UID = uid
	}
	a.record(verb, nj.Name, false, 0)
	if stored.DeletionTimestamp != nil && len(stored.Finalizers) == 0 {
		a.removeJob(stored.Name)
		return true, stored, nil
	}
	a.storeJob(stored, false)
	return true, stored.DeepCopy(), nil
}

func (a *SimAPI) deleteJob(name string) int64 {
	cur := a.getJob(name)
	if cur == nil {
		return 1
	}
	if len(cur.Finalizers) > 0 {
		if cur.DeletionTimestamp == nil {
			t := metav1.NewTime(time.Unix(a.now(), 0).UTC())
			cur = cur.DeepCopy()
			cur.DeletionTimestamp = &t
			a.storeJob(cur, false)
		}
		return 0
	}
	a.removeJob(name)
	return 0
}

func (a *SimAPI) reactDeleteJob(action k8stesting.Action) (bool, runtime.Object, error) {
	a.big.Lock()
	defer a.big.Unlock()
	name := action.(k8stesting.DeleteAction).GetName()
	if a.takeFault("delete-job") {
		a.record("delete-job", name, false, 3)
		return true, nil, apierrors.NewInternalError(fmt.Errorf("injected"))
	}
	out := a.deleteJob(name)
	a.record("delete-job", name, false, out)
	if out == 1 {
		return true, nil, apierrors.NewNotFound(schema.GroupResource{Resource: "jobs"}, name)
	}
	return true, nil, nil
}

// ---- caches ----

// AdvancePods applies the first n pending Pod events to the Pod informer.
func (a *SimAPI) AdvancePods(n int) {
	for ; n > 0 && len(a.podEv) > 0; n-- {
		e := a.podEv[0]
		a.podEv = a.podEv[1:]
		if e.pod != nil {
			a.sc.informers.Pods.Set(e.pod)
		} else {
			a.sc.informers.Pods.Remove(a.ns + "/" + e.name)
		}
	}
	a.sc.informers.Pods.DeliverAll()
}

func (a *SimAPI) AdvanceJobs(n int) {
	for ; n > 0 && len(a.jobEv) > 0; n-- {
		e := a.jobEv[0]
		a.jobEv = a.jobEv[1:]
		if e.job != nil {
			a.sc.informers.Jobs.Set(e.job)
		} else {
			a.sc.informers.Jobs.Remove(a.ns + "/" + e.name)
		}
	}
	a.sc.informers.Jobs.DeliverAll()
}
