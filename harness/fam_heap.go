package main

import (
	"fmt"
	"sort"
	"strconv"
	"strings"

	"github.com/furiko-io/furiko/pkg/utils/heap"
)

// Family "heap" (C01): pkg/utils/heap, the array heap behind the cron schedule. Random
// histories of the operations the schedule uses (New over distinct names, Push of an
// absent name, Pop, Peek, Search, Update, Delete) against the real heap.Heap; after
// New and after every op the slice in array order, the name index and the op's result
// (VerifDump hook). The monitor restates the heap's contract on the implementation:
// Peek/Pop return an item of least priority, the index maps every name to its slot,
// the content is what the ops imply.

func init() {
	register(&Family{Name: "heap", Run: runHeap, CheckModule: "Cases.HeapCheck", CaseOK: "heap_ok"})
}

type heapOp struct {
	Kind string `json:"kind"`
	K    int64  `json:"k,omitempty"`
	P    int64  `json:"p,omitempty"`
}

func heapName(k int64) string { return "k" + strconv.FormatInt(k, 10) }
func heapKey(n string) int64 {
	v, _ := strconv.ParseInt(strings.TrimPrefix(n, "k"), 10, 64)
	return v
}

func heapView(h *heap.Heap, res []int64) (string, [][2]int64, map[int64]int64) {
	names, prios, index := h.VerifDump()
	arr := make([]string, len(names))
	arrv := make([][2]int64, len(names))
	for i := range names {
		arr[i] = CPair(CZ(heapKey(names[i])), CZ(int64(prios[i])))
		arrv[i] = [2]int64{heapKey(names[i]), int64(prios[i])}
	}
	keys := make([]int64, 0, len(index))
	idx := map[int64]int64{}
	for n, v := range index {
		keys = append(keys, heapKey(n))
		idx[heapKey(n)] = int64(v)
	}
	sort.Slice(keys, func(a, b int) bool { return keys[a] < keys[b] })
	ix := make([]string, len(keys))
	for i, k := range keys {
		ix[i] = CPair(CZ(k), CZ(idx[k]))
	}
	return CPair(CPair(CList(arr), CList(ix)), CListZ(res)), arrv, idx
}

func runHeap(ctx *RunCtx) *Result {
	res := NewResult()
	p := NewPRNG(ctx.Seed)
	for i := 0; i < ctx.N; i++ {
		c := p.Fork()
		prioOf := func() int64 {
			if c.Chance(1, 3) {
				return Pick(c, []int64{0, 1, 1, 2, 5, 5, 5, 7, -1}) // many ties
			}
			return c.Range(-3, 40)
		}
		// initial items: distinct names, arbitrary order
		nInit := c.Intn(9)
		if c.Chance(1, 8) {
			nInit = 12 + c.Intn(20)
		}
		want := map[int64]int64{} // the content the ops imply
		var items []*heap.Item
		var itemTerms []string
		nextKey := int64(1)
		for k := 0; k < nInit; k++ {
			key := nextKey
			nextKey++
			pr := prioOf()
			items = append(items, heap.NewItem(heapName(key), int(pr)))
			itemTerms = append(itemTerms, CPair(CZ(key), CZ(pr)))
			want[key] = pr
		}
		// New copies the items, so shuffling afterwards would not matter; shuffle before
		for k := len(items) - 1; k > 0; k-- {
			j := c.Intn(k + 1)
			items[k], items[j] = items[j], items[k]
			itemTerms[k], itemTerms[j] = itemTerms[j], itemTerms[k]
		}
		h := heap.New(items)
		var ops []heapOp
		var opTerms, obTerms []string
		v0, arr0, idx0 := heapView(h, nil)
		obTerms = append(obTerms, v0)
		js := map[string]interface{}{}
		hit := func(sig, what string) {
			res.Hits = append(res.Hits, MonitorHit{"C01", sig, what, js})
		}
		check := func(k int, arr [][2]int64, idx map[int64]int64) {
			// content and index
			if len(arr) != len(want) {
				hit("C01/heap-content", fmt.Sprintf("op %d: %d items in the slice, %d expected", k, len(arr), len(want)))
			}
			for pos, e := range arr {
				if wp, ok := want[e[0]]; !ok || wp != e[1] {
					hit("C01/heap-content", fmt.Sprintf("op %d: slot %d holds k%d priority %d, expected %v", k, pos, e[0], e[1], want[e[0]]))
				}
				if ix, ok := idx[e[0]]; !ok || ix != int64(pos) {
					hit("C01/heap-index", fmt.Sprintf("op %d: k%d is in slot %d but the index says %v (present %v)", k, e[0], pos, ix, ok))
				}
				if pos > 0 && arr[(pos-1)/2][1] > e[1] {
					hit("C01/heap-order", fmt.Sprintf("op %d: slot %d (priority %d) is below slot %d (priority %d)", k, pos, e[1], (pos-1)/2, arr[(pos-1)/2][1]))
				}
			}
			if len(idx) != len(arr) {
				hit("C01/heap-index", fmt.Sprintf("op %d: index has %d names, slice %d items", k, len(idx), len(arr)))
			}
		}
		check(-1, arr0, idx0)
		nops := 5 + c.Intn(40)
		for k := 0; k < nops; k++ {
			var present []int64
			for key := range want {
				present = append(present, key)
			}
			sort.Slice(present, func(a, b int) bool { return present[a] < present[b] })
			pickKey := func() int64 {
				if len(present) > 0 && c.Chance(5, 6) {
					return Pick(c, present)
				}
				return nextKey + int64(c.Intn(3)) // absent
			}
			var o heapOp
			var out []int64
			switch r := c.Intn(100); {
			case r < 28:
				o = heapOp{Kind: "push", K: nextKey, P: prioOf()}
				nextKey++
				h.Push(heapName(o.K), int(o.P))
				want[o.K] = o.P
			case r < 48:
				o = heapOp{Kind: "pop"}
				if h.Len() > 0 {
					min := int64(1 << 60)
					for _, v := range want {
						if v < min {
							min = v
						}
					}
					it := h.Pop()
					out = []int64{heapKey(it.Name()), int64(it.Priority())}
					if int64(it.Priority()) != min || want[heapKey(it.Name())] != int64(it.Priority()) {
						hit("C01/heap-pop-not-min", fmt.Sprintf("op %d: Pop returned %s priority %d, least priority is %d", k, it.Name(), it.Priority(), min))
					}
					delete(want, heapKey(it.Name()))
				}
			case r < 68:
				o = heapOp{Kind: "update", K: pickKey(), P: prioOf()}
				ok := h.Update(heapName(o.K), int(o.P))
				_, was := want[o.K]
				if ok != was {
					hit("C01/heap-update", fmt.Sprintf("op %d: Update(k%d) = %v, present %v", k, o.K, ok, was))
				}
				if was {
					want[o.K] = o.P
				}
				out = []int64{b2i(ok)}
			case r < 82:
				o = heapOp{Kind: "delete", K: pickKey()}
				ok := h.Delete(heapName(o.K))
				_, was := want[o.K]
				if ok != was {
					hit("C01/heap-delete", fmt.Sprintf("op %d: Delete(k%d) = %v, present %v", k, o.K, ok, was))
				}
				delete(want, o.K)
				out = []int64{b2i(ok)}
			case r < 92:
				o = heapOp{Kind: "search", K: pickKey()}
				pr, ok := h.Search(heapName(o.K))
				wp, was := want[o.K]
				if ok != was || (ok && int64(pr) != wp) {
					hit("C01/heap-search", fmt.Sprintf("op %d: Search(k%d) = (%d,%v), expected (%d,%v)", k, o.K, pr, ok, wp, was))
				}
				if ok {
					out = []int64{int64(pr)}
				}
			default:
				o = heapOp{Kind: "peek"}
				if it, ok := h.Peek(); ok {
					out = []int64{heapKey(it.Name()), int64(it.Priority())}
					for _, v := range want {
						if v < int64(it.Priority()) {
							hit("C01/heap-peek-not-min", fmt.Sprintf("op %d: Peek shows priority %d, an item has %d", k, it.Priority(), v))
							break
						}
					}
				} else if len(want) > 0 {
					hit("C01/heap-peek-not-min", fmt.Sprintf("op %d: Peek finds nothing, %d items expected", k, len(want)))
				}
			}
			ops = append(ops, o)
			res.Count("op-" + o.Kind)
			switch o.Kind {
			case "push":
				opTerms = append(opTerms, CApp("CPush", CZ(o.K), CZ(o.P)))
			case "pop":
				opTerms = append(opTerms, "CPop")
			case "update":
				opTerms = append(opTerms, CApp("CUpdate", CZ(o.K), CZ(o.P)))
			case "delete":
				opTerms = append(opTerms, CApp("CDelete", CZ(o.K)))
			case "search":
				opTerms = append(opTerms, CApp("CSearch", CZ(o.K)))
			case "peek":
				opTerms = append(opTerms, "CPeek")
			}
			v, arr, idx := heapView(h, out)
			obTerms = append(obTerms, v)
			check(k, arr, idx)
		}
		js["items"], js["ops"] = itemTerms, ops
		res.Count(fmt.Sprintf("init-size-%d", bucket(nInit)))
		res.Add(CApp("mkHC", CList(itemTerms), CList(opTerms), CList(obTerms)), js, fmt.Sprintf("%d|%d", ctx.Seed, i), len(ops) > 0 && (nInit > 1 || len(want) > 1))
	}
	return res
}

func b2i(b bool) int64 {
	if b {
		return 1
	}
	return 0
}

func bucket(n int) int {
	switch {
	case n == 0:
		return 0
	case n < 4:
		return 3
	case n < 9:
		return 8
	}
	return 32
}
