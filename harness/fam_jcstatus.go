package main

import (
	"context"
	"fmt"
	"sort"
	"strconv"
	"time"

	apierrors "k8s.io/apimachinery/pkg/api/errors"
	metav1 "k8s.io/apimachinery/pkg/apis/meta/v1"
	"k8s.io/apimachinery/pkg/runtime"
	"k8s.io/apimachinery/pkg/runtime/schema"
	"k8s.io/apimachinery/pkg/types"
	k8stesting "k8s.io/client-go/testing"
	"k8s.io/client-go/tools/record"

	execution "github.com/furiko-io/furiko/apis/execution/v1alpha1"
	"github.com/furiko-io/furiko/pkg/execution/controllers/jobconfigcontroller"
	"github.com/furiko-io/furiko/pkg/execution/util/jobconfig"
	"github.com/furiko-io/furiko/pkg/runtime/reconciler"
)

// Family "jcstatus" (C15): the real jobconfigcontroller (InformerWorker handlers,
// Reconciler.SyncOne) under the real reconciler.Controller retry loop on one JobConfig,
// against JobConfig/Status.v.

func init() {
	register(&Family{Name: "jcstatus", Run: runJCStatus, CheckModule: "Cases.StatusCheck", CaseOK: "st_ok"})
}

type sOp struct {
	Kind  string `json:"kind"`
	ID    int64  `json:"id,omitempty"`
	Owned bool   `json:"owned,omitempty"`
	T     int64  `json:"t,omitempty"`
	Sched *int64 `json:"sched,omitempty"`
	Phase string `json:"phase,omitempty"`
	Cron  string `json:"cron,omitempty"` // "", "enabled", "disabled"
}

var phaseCodes = map[execution.JobPhase]int64{
	"": 0, execution.JobQueued: 1, execution.JobStarting: 2, execution.JobPending: 3, execution.JobRunning: 4,
	execution.JobTerminating: 5, execution.JobRetryBackoff: 6, execution.JobRetrying: 7, execution.JobSucceeded: 8,
	execution.JobFailed: 9, execution.JobKilled: 10, execution.JobAdmissionError: 11, execution.JobFinishedUnknown: 12,
}

var stateCodes = map[execution.JobConfigState]int64{"": -1, execution.JobConfigReady: 0, execution.JobConfigReadyEnabled: 1,
	execution.JobConfigReadyDisabled: 2, execution.JobConfigJobQueued: 3, execution.JobConfigExecuting: 4}

func cronTerm(c string) string {
	switch c {
	case "enabled":
		return "(Some false)"
	case "disabled":
		return "(Some true)"
	}
	return "None"
}

func (o sOp) coq() string {
	switch o.Kind {
	case "create":
		return CApp("SCreate", CApp("mkSJ", CZ(o.ID), CBool(o.Owned), CZ(o.T), COptZ(o.Sched), "None", CZ(phaseCodes[execution.JobPhase(o.Phase)]), "false"))
	case "start":
		return CApp("SStart", CZ(o.ID), CZ(o.T))
	case "phase":
		return CApp("SPhase", CZ(o.ID), CZ(phaseCodes[execution.JobPhase(o.Phase)]), CBool(execution.JobPhase(o.Phase).IsTerminal()))
	case "delete":
		return CApp("SDelete", CZ(o.ID))
	case "setcron":
		return CApp("SSetCron", cronTerm(o.Cron))
	case "deliverjob":
		return "SDeliverJob"
	case "deliverjc":
		return "SDeliverJC"
	case "fault":
		return "SFault"
	case "fire":
		return "SFire"
	case "work":
		return "SWork"
	}
	panic(o.Kind)
}

type sImpl struct {
	sc      *SimContext
	q       *SimQueue
	ctrl    *reconciler.Controller
	apiJobs map[int64]*execution.Job
	apiJC   *execution.JobConfig
	rv      int64
	jobEv   []func()
	jcEv    []*execution.JobConfig
	faults  int
	lastOut int64
	writes  []*execution.JobConfig // every status the API accepted, in order
}

func sJobName(id int64) string { return fmt.Sprintf("job%03d", id) }

func setCron(jc *execution.JobConfig, c string) {
	switch c {
	case "":
		jc.Spec.Schedule = nil
	default:
		jc.Spec.Schedule = &execution.ScheduleSpec{Cron: &execution.CronSchedule{Expression: "0 * * * *"}, Disabled: c == "disabled"}
	}
}

func newSImpl(cron string, initSched, initExec *int64) *sImpl {
	im := &sImpl{sc: NewSimContext(), apiJobs: map[int64]*execution.Job{}, rv: 1}
	jc := &execution.JobConfig{ObjectMeta: metav1.ObjectMeta{Namespace: "ns", Name: jcName, UID: types.UID(jcUID), ResourceVersion: "1"}}
	setCron(jc, cron)
	jc.Status.LastScheduled = mtp(initSched)
	jc.Status.LastExecuted = mtp(initExec)
	im.apiJC = jc
	im.sc.informers.JobConfigs.Set(jc.DeepCopy())
	fc := im.sc.clientsets.FurikoMock()
	fc.PrependReactor("update", "jobconfigs", im.reactUpdateJC)
	cctx := jobconfigcontroller.NewContextWithRecorder(im.sc, record.NewFakeRecorder(1000000))
	im.q = NewSimQueue()
	cctx.VerifSetQueue(im.q)
	jobconfigcontroller.NewInformerWorker(cctx)
	im.ctrl = reconciler.NewController(jobconfigcontroller.NewReconciler(cctx, nil), im.q)
	// the replayed Add of the JobConfig is delivered: the key starts in the work queue
	im.sc.informers.JobConfigs.DeliverAll()
	return im
}

func (im *sImpl) reactUpdateJC(action k8stesting.Action) (bool, runtime.Object, error) {
	ua := action.(k8stesting.UpdateAction)
	nj := ua.GetObject().(*execution.JobConfig).DeepCopy()
	if ua.GetSubresource() != "status" {
		panic("jobconfigcontroller wrote the JobConfig spec")
	}
	if im.faults > 0 {
		im.faults--
		im.lastOut = 3
		return true, nil, apierrors.NewInternalError(fmt.Errorf("injected"))
	}
	if nj.ResourceVersion != im.apiJC.ResourceVersion {
		im.lastOut = 3
		return true, nil, apierrors.NewConflict(schema.GroupResource{Resource: "jobconfigs"}, nj.Name, fmt.Errorf("the object has been modified"))
	}
	stored := im.apiJC.DeepCopy()
	stored.Status = *nj.Status.DeepCopy()
	im.bumpJC(stored)
	im.lastOut = 2
	im.writes = append(im.writes, stored.DeepCopy())
	return true, stored.DeepCopy(), nil
}

func (im *sImpl) bumpJC(jc *execution.JobConfig) {
	im.rv++
	jc.ResourceVersion = strconv.FormatInt(im.rv, 10)
	im.apiJC = jc
	im.jcEv = append(im.jcEv, jc.DeepCopy())
}

func (im *sImpl) setJob(rj *execution.Job) {
	var id int64
	fmt.Sscanf(rj.Name, "job%d", &id)
	im.apiJobs[id] = rj
	c := rj.DeepCopy()
	im.jobEv = append(im.jobEv, func() { im.sc.informers.Jobs.Set(c) })
}

func (im *sImpl) apply(o sOp) {
	im.lastOut = 0
	switch o.Kind {
	case "create":
		if im.apiJobs[o.ID] != nil {
			return
		}
		rj := &execution.Job{ObjectMeta: metav1.ObjectMeta{Namespace: "ns", Name: sJobName(o.ID), UID: types.UID(fmt.Sprintf("uid-%d", o.ID)),
			CreationTimestamp: metav1.NewTime(time.Unix(o.T, 0).UTC())}}
		if o.Owned {
			rj.Labels = map[string]string{jobconfig.LabelKeyJobConfigUID: jcUID}
			tr := true
			rj.OwnerReferences = []metav1.OwnerReference{{APIVersion: "execution.furiko.io/v1alpha1", Kind: "JobConfig", Name: jcName, UID: types.UID(jcUID), Controller: &tr, BlockOwnerDeletion: &tr}}
		}
		if o.Sched != nil {
			rj.Annotations = map[string]string{jobconfig.AnnotationKeyScheduleTime: strconv.FormatInt(*o.Sched, 10)}
		} else if o.ID%3 == 0 {
			rj.Annotations = map[string]string{jobconfig.AnnotationKeyScheduleTime: "not-a-number"}
		}
		rj.Status.Phase = execution.JobPhase(o.Phase)
		im.setJob(rj)
	case "start":
		if rj := im.apiJobs[o.ID]; rj != nil {
			rj = rj.DeepCopy()
			rj.Status.StartTime = mtp(&o.T)
			im.setJob(rj)
		}
	case "phase":
		if rj := im.apiJobs[o.ID]; rj != nil {
			rj = rj.DeepCopy()
			rj.Status.Phase = execution.JobPhase(o.Phase)
			im.setJob(rj)
		}
	case "delete":
		if rj := im.apiJobs[o.ID]; rj != nil {
			delete(im.apiJobs, o.ID)
			key := "ns/" + rj.Name
			im.jobEv = append(im.jobEv, func() { im.sc.informers.Jobs.Remove(key) })
		}
	case "setcron":
		jc := im.apiJC.DeepCopy()
		setCron(jc, o.Cron)
		im.bumpJC(jc)
	case "deliverjob":
		if len(im.jobEv) > 0 {
			im.jobEv[0]()
			im.jobEv = im.jobEv[1:]
			im.sc.informers.Jobs.DeliverAll()
		}
	case "deliverjc":
		if len(im.jcEv) > 0 {
			im.sc.informers.JobConfigs.Set(im.jcEv[0])
			im.jcEv = im.jcEv[1:]
			im.sc.informers.JobConfigs.DeliverAll()
		}
	case "fault":
		im.faults++
	case "fire":
		im.q.Fire(0)
	case "work":
		if im.q.Len() > 0 {
			im.lastOut = 1
			im.ctrl.VerifWorkOne(context.Background())
		}
	}
}

func refsTerm(refs []execution.JobReference) string {
	rs := append([]execution.JobReference{}, refs...)
	sort.Slice(rs, func(i, j int) bool { return rs[i].Name < rs[j].Name })
	var out []string
	for _, r := range rs {
		var id int64
		fmt.Sscanf(r.Name, "job%d", &id)
		if string(r.UID) != fmt.Sprintf("uid-%d", id) {
			id = -id
		}
		out = append(out, CPair(CPair(CPair(CZ(id), CZ(r.CreationTimestamp.Unix())), CZ(phaseCodes[r.Phase])), COptZ(mtz(r.StartTime))))
	}
	return CList(out)
}

func mtz(t *metav1.Time) *int64 {
	if t.IsZero() {
		return nil
	}
	u := t.Unix()
	return &u
}

func statusTerm(st execution.JobConfigStatus) string {
	return CApp("mkSt", refsTerm(st.ActiveJobs), refsTerm(st.QueuedJobs), CZ(st.Active), CZ(st.Queued),
		COptZ(mtz(st.LastScheduled)), COptZ(mtz(st.LastExecuted)), CZ(stateCodes[st.State]))
}

func (im *sImpl) obsTerm() string {
	return CPair(CPair(CPair(CPair(statusTerm(im.apiJC.Status), CZ(im.rv)), CBool(im.q.Len() > 0)), CNat(len(im.q.Delayed))), CZ(im.lastOut))
}

var livePhases = []string{string(execution.JobQueued), string(execution.JobStarting), string(execution.JobPending), string(execution.JobRunning), string(execution.JobRetryBackoff), string(execution.JobRetrying), string(execution.JobTerminating)}
var termPhases = []string{string(execution.JobSucceeded), string(execution.JobFailed), string(execution.JobKilled), string(execution.JobAdmissionError), string(execution.JobFinishedUnknown)}

func runJCStatus(ctx *RunCtx) *Result {
	res := NewResult()
	p := NewPRNG(ctx.Seed)
	for i := 0; i < ctx.N; i++ {
		c := p.Fork()
		cron := Pick(c, []string{"", "enabled", "disabled"})
		now := int64(1700000000)
		var initSched, initExec *int64
		if c.Chance(1, 3) {
			initSched = ip(now + int64(c.Intn(200)) - 100)
		}
		if c.Chance(1, 4) {
			initExec = ip(now + int64(c.Intn(200)) - 100)
		}
		im := newSImpl(cron, initSched, initExec)
		initTerm := CApp("mkSt", "[]", "[]", "0", "0", COptZ(initSched), COptZ(initExec), "(-1)")
		var ops []sOp
		var obsTerms []string
		mon := newJCStatusMonitor(im)
		do := func(o sOp) {
			ops = append(ops, o)
			im.apply(o)
			obsTerms = append(obsTerms, im.obsTerm())
			res.Count("op-" + o.Kind)
			if o.Kind == "work" {
				res.Count(fmt.Sprintf("work-outcome-%d", im.lastOut))
			}
			mon.after(o)
		}
		quiesce := func() {
			for rounds := 0; rounds < 50; rounds++ {
				progress := false
				for len(im.jobEv) > 0 {
					do(sOp{Kind: "deliverjob"})
					progress = true
				}
				for len(im.jcEv) > 0 {
					do(sOp{Kind: "deliverjc"})
					progress = true
				}
				for len(im.q.Delayed) > 0 {
					do(sOp{Kind: "fire"})
					progress = true
				}
				for im.q.Len() > 0 {
					do(sOp{Kind: "work"})
					progress = true
				}
				if !progress {
					break
				}
			}
		}
		nextID := int64(1)
		var ids []int64
		lag := c.Chance(2, 3)
		nops := 10 + c.Intn(50)
		if i == 0 {
			// scripted corpus case: the controller's own status write reaches the JobConfig cache
			// only after the Job it lists is gone and a pass on the stale JobConfig has (rightly)
			// found nothing to write: the late status-only update must still lead to a pass
			do(sOp{Kind: "setcron", Cron: cron})
			quiesce() // the JobConfig has been synced once: cache and API agree on an idle status
			do(sOp{Kind: "create", ID: nextID, Owned: true, T: now, Phase: string(execution.JobQueued)})
			ids = append(ids, nextID)
			nextID++
			do(sOp{Kind: "deliverjob"})
			do(sOp{Kind: "work"})
			do(sOp{Kind: "delete", ID: 1})
			do(sOp{Kind: "deliverjob"})
			do(sOp{Kind: "work"})
			nops = 0
		}
		for k := 0; k < nops; k++ {
			now += int64(c.Intn(5))
			switch r := c.Intn(100); {
			case r < 16:
				o := sOp{Kind: "create", ID: nextID, Owned: !c.Chance(1, 6), T: now, Phase: Pick(c, []string{"", string(execution.JobQueued)})}
				if c.Chance(1, 2) {
					o.Sched = ip(now - int64(c.Intn(120)))
				}
				ids = append(ids, nextID)
				nextID++
				do(o)
			case r < 28:
				if len(ids) > 0 {
					do(sOp{Kind: "start", ID: Pick(c, ids), T: now + int64(c.Intn(3))})
				}
			case r < 40:
				if len(ids) > 0 {
					ph := Pick(c, livePhases)
					if c.Chance(1, 2) {
						ph = Pick(c, termPhases)
					}
					do(sOp{Kind: "phase", ID: Pick(c, ids), Phase: ph})
				}
			case r < 48:
				if len(ids) > 0 {
					do(sOp{Kind: "delete", ID: Pick(c, ids)})
				}
			case r < 52:
				do(sOp{Kind: "setcron", Cron: Pick(c, []string{"", "enabled", "disabled"})})
			case r < 66:
				do(sOp{Kind: "deliverjob"})
			case r < 74:
				do(sOp{Kind: "deliverjc"})
			case r < 78:
				do(sOp{Kind: "fault"})
			case r < 84:
				do(sOp{Kind: "fire"})
			default:
				if !lag {
					for len(im.jobEv) > 0 {
						do(sOp{Kind: "deliverjob"})
					}
					for len(im.jcEv) > 0 {
						do(sOp{Kind: "deliverjc"})
					}
				}
				do(sOp{Kind: "work"})
			}
			if c.Chance(1, 12) {
				quiesce()
				mon.atQuiescence()
			}
		}
		quiesce()
		mon.atQuiescence()
		var opTerms []string
		for _, o := range ops {
			opTerms = append(opTerms, o.coq())
		}
		term := CApp("mkStCase", cronTerm(cron), initTerm, CList(opTerms), CList(obsTerms))
		js := map[string]interface{}{"cron": cron, "init_sched": initSched, "init_exec": initExec, "ops": ops}
		for _, h := range mon.hits {
			h.Case = js
			res.Hits = append(res.Hits, h)
		}
		res.Add(term, js, fmt.Sprint(ops), len(im.writes) > 1)
	}
	return res
}

// ---- monitor: the property restated on the implementation trace ----

type jcStatusMonitor struct {
	im        *sImpl
	hits      []MonitorHit
	seenW     int
	lastSched *int64
	lastExec  *int64
	// high-water marks of what successful passes have observed
	obsSched, obsExec *int64
}

func newJCStatusMonitor(im *sImpl) *jcStatusMonitor {
	return &jcStatusMonitor{im: im, lastSched: mtz(im.apiJC.Status.LastScheduled), lastExec: mtz(im.apiJC.Status.LastExecuted)}
}

func (m *jcStatusMonitor) hit(sig, what string) {
	for _, h := range m.hits {
		if h.Signature == sig {
			return
		}
	}
	m.hits = append(m.hits, MonitorHit{Property: "C15", Signature: sig, What: what})
}

func maxp(a *int64, b int64) *int64 {
	if a == nil || *a < b {
		return &b
	}
	return a
}

func (m *jcStatusMonitor) after(o sOp) {
	// what a pass that completed without error has seen in the Job cache
	if o.Kind == "work" && (m.im.lastOut == 1 || m.im.lastOut == 2) {
		for _, obj := range m.im.sc.informers.Jobs.indexer.List() {
			rj := obj.(*execution.Job)
			if rj.Labels[jobconfig.LabelKeyJobConfigUID] != jcUID {
				continue
			}
			if t := jobconfig.GetLabelScheduleTime(rj); t != nil {
				m.obsSched = maxp(m.obsSched, t.Unix())
			}
			if !rj.Status.StartTime.IsZero() {
				m.obsExec = maxp(m.obsExec, rj.Status.StartTime.Unix())
			}
		}
	}
	// every accepted write: monotone
	for ; m.seenW < len(m.im.writes); m.seenW++ {
		st := m.im.writes[m.seenW].Status
		ns, ne := mtz(st.LastScheduled), mtz(st.LastExecuted)
		if m.lastSched != nil && (ns == nil || *ns < *m.lastSched) {
			m.hit("C15/last-scheduled-moved-backwards", fmt.Sprintf("lastScheduled went from %d to %v", *m.lastSched, fmtp(ns)))
			// the same event seen from C04: the stored value is where a restarted cron controller
			// resumes, so every schedule time in (new, old] - already recorded once - is requested again
			m.hits = append(m.hits, MonitorHit{Property: "C04", Signature: "C04/recorded-schedule-time-forgotten",
				What: fmt.Sprintf("status.lastScheduled went from %d back to %v: a controller restarting now resumes from the older value and requests again the schedule times up to %d that were already recorded", *m.lastSched, fmtp(ns), *m.lastSched)})
		}
		if m.lastExec != nil && (ne == nil || *ne < *m.lastExec) {
			m.hit("C15/last-executed-moved-backwards", fmt.Sprintf("lastExecuted went from %d to %v", *m.lastExec, fmtp(ne)))
		}
		m.lastSched, m.lastExec = ns, ne
	}
}

func fmtp(p *int64) string {
	if p == nil {
		return "nil"
	}
	return strconv.FormatInt(*p, 10)
}

// atQuiescence: nothing undelivered, nothing queued, no pending fault effect.
func (m *jcStatusMonitor) atQuiescence() {
	im := m.im
	if len(im.jobEv) > 0 || len(im.jcEv) > 0 || im.q.Len() > 0 || len(im.q.Delayed) > 0 {
		return // the driver ran out of rounds; nothing is judged
	}
	st := im.apiJC.Status
	var wantA, wantQ []string
	for id, rj := range im.apiJobs {
		if rj.Labels[jobconfig.LabelKeyJobConfigUID] != jcUID {
			continue
		}
		started, term := !rj.Status.StartTime.IsZero(), rj.Status.Phase.IsTerminal()
		if started && !term {
			wantA = append(wantA, sJobName(id))
		}
		if !started && !term {
			wantQ = append(wantQ, sJobName(id))
		}
	}
	names := func(refs []execution.JobReference) []string {
		var out []string
		for _, r := range refs {
			out = append(out, r.Name)
		}
		sort.Strings(out)
		return out
	}
	sort.Strings(wantA)
	sort.Strings(wantQ)
	if fmt.Sprint(names(st.ActiveJobs)) != fmt.Sprint(wantA) {
		m.hit("C15/active-list-wrong-at-quiescence", fmt.Sprintf("status.activeJobs=%v, the active Jobs are %v", names(st.ActiveJobs), wantA))
	}
	if fmt.Sprint(names(st.QueuedJobs)) != fmt.Sprint(wantQ) {
		m.hit("C15/queued-list-wrong-at-quiescence", fmt.Sprintf("status.queuedJobs=%v, the queued Jobs are %v", names(st.QueuedJobs), wantQ))
	}
	if st.Active != int64(len(wantA)) || st.Queued != int64(len(wantQ)) {
		m.hit("C15/counts-wrong-at-quiescence", fmt.Sprintf("active=%d queued=%d, truth %d/%d", st.Active, st.Queued, len(wantA), len(wantQ)))
	}
	for _, r := range append(append([]execution.JobReference{}, st.ActiveJobs...), st.QueuedJobs...) {
		var id int64
		fmt.Sscanf(r.Name, "job%d", &id)
		rj := im.apiJobs[id]
		if rj == nil {
			continue
		}
		if r.Phase != rj.Status.Phase || !r.StartTime.Equal(rj.Status.StartTime) && !(r.StartTime.IsZero() && rj.Status.StartTime.IsZero()) || r.UID != rj.UID {
			m.hit("C15/reference-stale-at-quiescence", fmt.Sprintf("reference %+v, Job phase=%s start=%v", r, rj.Status.Phase, rj.Status.StartTime))
		}
	}
	want := execution.JobConfigReady
	switch {
	case len(wantA) > 0:
		want = execution.JobConfigExecuting
	case len(wantQ) > 0:
		want = execution.JobConfigJobQueued
	case im.apiJC.Spec.Schedule != nil && im.apiJC.Spec.Schedule.Cron != nil && im.apiJC.Spec.Schedule.Disabled:
		want = execution.JobConfigReadyDisabled
	case im.apiJC.Spec.Schedule != nil && im.apiJC.Spec.Schedule.Cron != nil:
		want = execution.JobConfigReadyEnabled
	}
	// the state is only computed by a pass: before the first pass it is empty
	if st.State != want {
		m.hit("C15/state-wrong-at-quiescence", fmt.Sprintf("state=%q, expected %q", st.State, want))
	}
	// high-water marks dominate everything present now and everything a completed pass saw
	for _, rj := range im.apiJobs {
		if rj.Labels[jobconfig.LabelKeyJobConfigUID] != jcUID {
			continue
		}
		if t := jobconfig.GetLabelScheduleTime(rj); t != nil && (st.LastScheduled == nil || st.LastScheduled.Unix() < t.Unix()) {
			m.hit("C15/last-scheduled-below-existing-job", fmt.Sprintf("lastScheduled=%v, Job %s was scheduled at %d", fmtp(mtz(st.LastScheduled)), rj.Name, t.Unix()))
		}
		if !rj.Status.StartTime.IsZero() && (st.LastExecuted == nil || st.LastExecuted.Unix() < rj.Status.StartTime.Unix()) {
			m.hit("C15/last-executed-below-existing-job", fmt.Sprintf("lastExecuted=%v, Job %s started at %d", fmtp(mtz(st.LastExecuted)), rj.Name, rj.Status.StartTime.Unix()))
		}
	}
	if m.obsSched != nil && (st.LastScheduled == nil || st.LastScheduled.Unix() < *m.obsSched) {
		m.hit("C15/last-scheduled-forgot-deleted-job", fmt.Sprintf("lastScheduled=%v, a pass had seen a Job scheduled at %d", fmtp(mtz(st.LastScheduled)), *m.obsSched))
	}
	if m.obsExec != nil && (st.LastExecuted == nil || st.LastExecuted.Unix() < *m.obsExec) {
		m.hit("C15/last-executed-forgot-deleted-job", fmt.Sprintf("lastExecuted=%v, a pass had seen a Job started at %d", fmtp(mtz(st.LastExecuted)), *m.obsExec))
	}
}
