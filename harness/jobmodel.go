package main

import (
	"encoding/json"
	"fmt"
	"strings"
	"time"

	corev1 "k8s.io/api/core/v1"
	metav1 "k8s.io/apimachinery/pkg/apis/meta/v1"
	"k8s.io/apimachinery/pkg/types"
	"k8s.io/utils/pointer"

	executiongroup "github.com/furiko-io/furiko/apis/execution"
	execution "github.com/furiko-io/furiko/apis/execution/v1alpha1"
	"github.com/furiko-io/furiko/pkg/execution/taskexecutor/podtaskexecutor"
	"github.com/furiko-io/furiko/pkg/execution/tasks"
	jobutil "github.com/furiko-io/furiko/pkg/execution/util/job"
	"github.com/furiko-io/furiko/pkg/execution/util/parallel"
)

// Shared by the job streams: generator-level descriptions of Jobs, task refs and
// Pods, their real API objects, their Coq terms, and the canonical projection of
// the implementation's values (must mirror Cases/JobView.v).

const jobUID = "job-uid-1"
const jobName = "j"

type mStatus struct {
	State  string `json:"state"`
	Result string `json:"result"`
	Reason string `json:"reason"`
}

type mRef struct {
	Name    string   `json:"name"`
	Hash    string   `json:"hash"`
	Index   int      `json:"index"` // position in the job's index list (-1: unknown)
	Retry   int64    `json:"retry"`
	Created int64    `json:"created"`
	Running *int64   `json:"running"`
	Finish  *int64   `json:"finish"`
	Status  mStatus  `json:"status"`
	Deleted *mStatus `json:"deleted"`
}

type mPod struct {
	Name        string `json:"name"`
	Hash        string `json:"hash"`
	Index       int    `json:"index"`
	Retry       int64  `json:"retry"`
	Created     int64  `json:"created"`
	Controlled  bool   `json:"controlled"`
	Phase       string `json:"phase"` // Pending Running Succeeded Failed
	OOM         bool   `json:"oom"`
	Deletion    *int64 `json:"deletion"`
	StatusStart *int64 `json:"statusStart"`
	ContStart   *int64 `json:"contStart"`
	ContFinish  *int64 `json:"contFinish"`
	Scheduled   bool   `json:"scheduled"`
	// PrevOOM: the container was OOM-killed once, restarted (restartPolicy OnFailure) and then
	// terminated as Phase says: lastState is the OOM kill, state the final termination
	PrevOOM bool `json:"prevOOM,omitempty"`
}

type mJob struct {
	Shape          string   `json:"shape"` // none count keys matrix
	Count          int64    `json:"count"`
	Strategy       string   `json:"strategy"` // "" All Any
	MaxAttempts    int64    `json:"maxAttempts"`
	RetryDelay     int64    `json:"retryDelay"`
	StartAfter     bool     `json:"startAfter"`
	Enqueue        bool     `json:"enqueue"`
	Kill           *int64   `json:"kill"`
	AdmErr         bool     `json:"admErr"`
	TTL            *int64   `json:"ttl"`
	PendingTimeout *int64   `json:"pendingTimeout"`
	ForbidForce    bool     `json:"forbidForce"`
	Finalizer      bool     `json:"finalizer"`
	Deletion       *int64   `json:"deletion"`
	Start          *int64   `json:"start"`
	Tasks          []mRef   `json:"tasks"`
	OldFinish      *int64   `json:"oldFinish"` // finish time of a previously stored Finished condition
	Hashes         []string `json:"hashes"`
	indexes        []execution.ParallelIndex
}

func (m *mJob) parallelism() *execution.ParallelismSpec {
	var spec *execution.ParallelismSpec
	switch m.Shape {
	case "count":
		spec = &execution.ParallelismSpec{WithCount: pointer.Int64(m.Count)}
	case "keys":
		keys := []string{"a", "b", "c", "d", "e"}[:m.Count]
		spec = &execution.ParallelismSpec{WithKeys: keys}
	case "matrix":
		spec = &execution.ParallelismSpec{WithMatrix: map[string][]string{"x": {"1", "2"}, "y": {"p", "q"}}}
	}
	if spec != nil && m.Strategy != "" {
		spec.CompletionStrategy = execution.ParallelCompletionStrategy(m.Strategy + "Successful")
	}
	return spec
}

func (m *mJob) init() {
	m.indexes = parallel.GenerateIndexes(m.parallelism())
	m.Hashes = nil
	for _, ix := range m.indexes {
		h, err := parallel.HashIndex(ix)
		if err != nil {
			panic(err)
		}
		m.Hashes = append(m.Hashes, h)
	}
}

func mtp(p *int64) *metav1.Time {
	if p == nil {
		return nil
	}
	t := metav1.NewTime(time.Unix(*p, 0).UTC())
	return &t
}

func (s mStatus) obj() execution.TaskStatus {
	return execution.TaskStatus{State: execution.TaskState(s.State), Result: execution.TaskResult(s.Result), Reason: s.Reason}
}

func (m *mJob) refObj(r mRef) execution.TaskRef {
	ref := execution.TaskRef{
		Name:              r.Name,
		CreationTimestamp: *mtp(&r.Created),
		RunningTimestamp:  mtp(r.Running),
		FinishTimestamp:   mtp(r.Finish),
		RetryIndex:        r.Retry,
		Status:            r.Status.obj(),
	}
	if r.Index >= 0 && r.Index < len(m.indexes) {
		ix := m.indexes[r.Index]
		ref.ParallelIndex = &ix
	}
	if r.Deleted != nil {
		d := r.Deleted.obj()
		ref.DeletedStatus = &d
	}
	return ref
}

func (m *mJob) obj() *execution.Job {
	rj := &execution.Job{
		ObjectMeta: metav1.ObjectMeta{Namespace: "ns", Name: jobName, UID: types.UID(jobUID)},
	}
	rj.Spec.Template = &execution.JobTemplate{
		Parallelism:               m.parallelism(),
		MaxAttempts:               pointer.Int64(m.MaxAttempts),
		RetryDelaySeconds:         pointer.Int64(m.RetryDelay),
		ForbidTaskForceDeletion:   m.ForbidForce,
		TaskPendingTimeoutSeconds: m.PendingTimeout,
		TaskTemplate: execution.TaskTemplate{Pod: &execution.PodTemplateSpec{
			Spec: corev1.PodSpec{Containers: []corev1.Container{{Name: "c", Image: "img"}}, RestartPolicy: corev1.RestartPolicyNever},
		}},
	}
	if m.StartAfter || m.Enqueue {
		rj.Spec.StartPolicy = &execution.StartPolicySpec{}
		if m.StartAfter {
			rj.Spec.StartPolicy.StartAfter = mtp(pointer.Int64(1000))
		}
		if m.Enqueue {
			rj.Spec.StartPolicy.ConcurrencyPolicy = execution.ConcurrencyPolicyEnqueue
		}
	}
	rj.Spec.KillTimestamp = mtp(m.Kill)
	rj.Spec.TTLSecondsAfterFinished = m.TTL
	if m.AdmErr {
		rj.Annotations = map[string]string{jobutil.LabelKeyAdmissionErrorMessage: "refused"}
	}
	if m.Finalizer {
		rj.Finalizers = []string{executiongroup.DeleteDependentsFinalizer}
	}
	rj.DeletionTimestamp = mtp(m.Deletion)
	rj.Status.StartTime = mtp(m.Start)
	for _, r := range m.Tasks {
		rj.Status.Tasks = append(rj.Status.Tasks, m.refObj(r))
	}
	if m.OldFinish != nil {
		rj.Status.Condition.Finished = &execution.JobConditionFinished{FinishTimestamp: *mtp(m.OldFinish), Result: execution.JobResultAdmissionError}
	}
	return rj
}

func (m *mJob) podObj(p mPod) *corev1.Pod {
	pod := &corev1.Pod{
		ObjectMeta: metav1.ObjectMeta{
			Namespace: "ns", Name: p.Name, UID: types.UID("pod-" + p.Name),
			CreationTimestamp: *mtp(&p.Created),
			DeletionTimestamp: mtp(p.Deletion),
			Labels:            map[string]string{podtaskexecutor.LabelKeyTaskRetryIndex: fmt.Sprint(p.Retry)},
			Annotations:       map[string]string{},
		},
		Spec: corev1.PodSpec{Containers: []corev1.Container{{Name: "c", Image: "img"}}},
	}
	if p.Index >= 0 && p.Index < len(m.indexes) {
		b, _ := json.Marshal(m.indexes[p.Index])
		pod.Annotations[podtaskexecutor.AnnotationKeyTaskParallelIndex] = string(b)
	}
	tr := true
	if p.Controlled {
		pod.OwnerReferences = []metav1.OwnerReference{{APIVersion: "execution.furiko.io/v1alpha1", Kind: "Job", Name: jobName, UID: types.UID(jobUID), Controller: &tr, BlockOwnerDeletion: &tr}}
	} else {
		pod.OwnerReferences = []metav1.OwnerReference{{APIVersion: "v1", Kind: "ReplicaSet", Name: "other", UID: "other-uid", Controller: &tr}}
	}
	pod.Status.Phase = corev1.PodPhase(p.Phase)
	pod.Status.StartTime = mtp(p.StatusStart)
	if p.Scheduled {

		pod.Status.Conditions = []corev1.PodCondition{{Type: corev1.PodScheduled, Status: corev1.ConditionTrue}}
	}
	cs := corev1.ContainerStatus{Name: "c"}
	switch {
	case p.ContFinish != nil || p.Phase == "Succeeded" || p.Phase == "Failed":
		term := &corev1.ContainerStateTerminated{Reason: "Completed"}
		if p.Phase == "Failed" {
			term.Reason, term.ExitCode = "Error", 1
		}
		if p.OOM {
			term.Reason, term.ExitCode = "OOMKilled", 137
		}
		if p.ContStart != nil {
			term.StartedAt = *mtp(p.ContStart)
		}
		if p.ContFinish != nil {
			term.FinishedAt = *mtp(p.ContFinish)
		}
		cs.State.Terminated = term
		if p.PrevOOM && !p.OOM {
			prev := &corev1.ContainerStateTerminated{Reason: "OOMKilled", ExitCode: 137}
			if p.ContStart != nil {
				prev.StartedAt = *mtp(ip(*p.ContStart - 2))
				prev.FinishedAt = *mtp(ip(*p.ContStart - 1))
			}
			cs.LastTerminationState.Terminated = prev
			cs.RestartCount = 1
		}
		pod.Status.ContainerStatuses = []corev1.ContainerStatus{cs}
	case p.ContStart != nil:
		cs.State.Running = &corev1.ContainerStateRunning{StartedAt: *mtp(p.ContStart)}
		if p.OOM {
			cs.LastTerminationState.Terminated = &corev1.ContainerStateTerminated{Reason: "OOMKilled", ExitCode: 137}
		}
		pod.Status.ContainerStatuses = []corev1.ContainerStatus{cs}
	case p.OOM:
		cs.LastTerminationState.Terminated = &corev1.ContainerStateTerminated{Reason: "OOMKilled", ExitCode: 137}
		pod.Status.ContainerStatuses = []corev1.ContainerStatus{cs}
	}
	return pod
}

func (m *mJob) podTasks(pods []mPod) []tasks.Task {
	var out []tasks.Task
	for _, p := range pods {
		out = append(out, podtaskexecutor.NewPodTask(m.podObj(p), nil))
	}
	return out
}

// ---- Coq terms ----

var tstateCtor = map[string]string{"Starting": "TStarting", "Running": "TRunning", "Killing": "TKilling", "Terminated": "TTerminated", "DeletedFinalStateUnknown": "TDeletedUnknown"}
var tresultCtor = map[string]string{"": "RNone", "Succeeded": "RSucceeded", "Failed": "RFailed", "Killed": "RKilled"}

func reasonCtor(r string) string {
	switch r {
	case "":
		return "ReNone"
	case "PendingTimeout":
		return "RePendingTimeout"
	case "ForceDeleted":
		return "ReForceDeleted"
	case "JobDeleted":
		return "ReJobDeleted"
	}
	return "RePod"
}

func (s mStatus) coq() string {
	return CApp("mkSt", tstateCtor[s.State], tresultCtor[s.Result], reasonCtor(s.Reason))
}

func (r mRef) coq() string {
	d := "None"
	if r.Deleted != nil {
		d = "(Some " + r.Deleted.coq() + ")"
	}
	return CApp("mkRef", CStr(r.Name), CStr(r.Hash), CZ(r.Retry), CZ(r.Created), COptZ(r.Running), COptZ(r.Finish), r.Status.coq(), d)
}

func (p mPod) coq() string {
	return CApp("mkPod", CStr(p.Name), CStr(p.Hash), CZ(p.Retry), CZ(p.Created), CBool(p.Controlled),
		"P"+p.Phase, CBool(p.OOM), COptZ(p.Deletion), COptZ(p.StatusStart), COptZ(p.ContStart), COptZ(p.ContFinish))
}

// coq prints the job with an initial (stored) status given by cond/phase/etc. terms.
func (m *mJob) coqWith(tasks []mRef, created, running int64, pstatus, cond, phase, state string) string {
	strat := "AllSuccessful"
	if m.Strategy == "Any" {
		strat = "AnySuccessful"
	}
	refs := make([]string, len(tasks))
	for i, r := range tasks {
		refs[i] = r.coq()
	}
	return CApp("mkJob", CListStr(m.Hashes), CBool(m.Shape != "none"), strat, CZ(m.MaxAttempts), CZ(m.RetryDelay),
		CBool(m.StartAfter), CBool(m.Enqueue), COptZ(m.Kill), CBool(m.AdmErr), COptZ(m.TTL), COptZ(m.PendingTimeout),
		CBool(m.ForbidForce), CBool(m.Finalizer), COptZ(m.Deletion), COptZ(m.Start),
		CList(refs), CZ(created), CZ(running), pstatus, cond, phase, state)
}

func (m *mJob) coq() string {
	cond := "(CQueueing QNone)"
	if m.OldFinish != nil {
		cond = CApp("CFinished", "JAdmissionError", COptZ(m.OldFinish), "None", "None")
	}
	return m.coqWith(m.Tasks, 0, 0, "None", cond, "PhQueued", "SQueued")
}

// ---- canonical projection of implementation values (mirror of Cases/JobView.v) ----

func ozt(t *metav1.Time) int64 {
	if t.IsZero() {
		return -1
	}
	return t.Unix()
}

var tstateCode = map[execution.TaskState]int64{execution.TaskStarting: 0, execution.TaskRunning: 1, execution.TaskKilling: 2, execution.TaskTerminated: 3, execution.TaskDeletedFinalStateUnknown: 4}
var tresultCode = map[execution.TaskResult]int64{"": 0, execution.TaskSucceeded: 1, execution.TaskFailed: 2, execution.TaskKilled: 3}

func reasonCode(r string) int64 {
	switch r {
	case "PendingTimeout":
		return 1
	case "ForceDeleted":
		return 2
	case "JobDeleted":
		return 3
	}
	return 0
}

func viewStatus(s execution.TaskStatus) []int64 {
	return []int64{tstateCode[s.State], tresultCode[s.Result], reasonCode(s.Reason)}
}

type refView struct {
	Name, Hash string
	V          []int64
}

func viewRef(r execution.TaskRef) refView {
	ix := parallel.GetDefaultIndex()
	if r.ParallelIndex != nil {
		ix = *r.ParallelIndex
	}
	h, _ := parallel.HashIndex(ix)
	v := []int64{r.RetryIndex, r.CreationTimestamp.Unix(), ozt(r.RunningTimestamp), ozt(r.FinishTimestamp)}
	v = append(v, viewStatus(r.Status)...)
	if r.DeletedStatus != nil {
		v = append(v, 1)
		v = append(v, viewStatus(*r.DeletedStatus)...)
	} else {
		v = append(v, 0)
	}
	return refView{r.Name, h, v}
}

func (v refView) coq() string { return CPair(CPair(CStr(v.Name), CStr(v.Hash)), CListZ(v.V)) }

func viewRefs(rs []execution.TaskRef) string {
	it := make([]string, len(rs))
	for i, r := range rs {
		it[i] = viewRef(r).coq()
	}
	return CList(it)
}

var istateCode = map[execution.IndexState]int64{"": 0, execution.IndexNotCreated: 1, execution.IndexRetryBackoff: 2, execution.IndexStarting: 3, execution.IndexRunning: 4, execution.IndexTerminated: 5}
var jresultCode = map[execution.JobResult]int64{execution.JobResultSuccess: 0, execution.JobResultFailed: 1, execution.JobResultAdmissionError: 2, execution.JobResultKilled: 3, execution.JobResultFinalStateUnknown: 4}
var phaseCode = map[execution.JobPhase]int64{execution.JobQueued: 0, execution.JobStarting: 1, execution.JobAdmissionError: 2, execution.JobPending: 3, execution.JobRunning: 4,
	execution.JobTerminating: 5, execution.JobRetryBackoff: 6, execution.JobRetrying: 7, execution.JobSucceeded: 8, execution.JobFailed: 9,
	execution.JobKilling: 10, execution.JobKilled: 11, execution.JobFinishedUnknown: 12}
var stateCode = map[execution.JobState]int64{execution.JobStateQueued: 0, execution.JobStateWaiting: 1, execution.JobStateRunning: 2, execution.JobStateFinished: 3}

func ozv(t metav1.Time) int64 {
	if t.IsZero() {
		return -1
	}
	return t.Unix()
}

func viewCond(c execution.JobCondition) []int64 {
	switch {
	case c.Queueing != nil:
		return []int64{0, map[string]int64{"": 0, "NotYetDue": 1, "Queued": 2}[c.Queueing.Reason]}
	case c.Waiting != nil:
		return []int64{1, map[string]int64{"DeletingTasks": 0, "PendingCreation": 1, "RetryBackoff": 2, "WaitingForTasks": 3}[c.Waiting.Reason]}
	case c.Running != nil:
		return []int64{2, c.Running.TerminatingTasks, ozv(c.Running.LatestCreationTimestamp), ozv(c.Running.LatestRunningTimestamp)}
	case c.Finished != nil:
		return []int64{3, jresultCode[c.Finished.Result], ozv(c.Finished.FinishTimestamp), ozt(c.Finished.LatestCreationTimestamp), ozt(c.Finished.LatestRunningTimestamp)}
	}
	return []int64{-1}
}

func viewPStatus(p *execution.ParallelStatus) string {
	if p == nil {
		return "[]"
	}
	succ := int64(-1)
	if p.Successful != nil {
		succ = 0
		if *p.Successful {
			succ = 1
		}
	}
	comp := int64(0)
	if p.Complete {
		comp = 1
	}
	it := []string{CPair(CStr("summary"), CListZ([]int64{comp, succ}))}
	for _, ix := range p.Indexes {
		it = append(it, CPair(CStr(ix.Hash), CListZ([]int64{ix.CreatedTasks, istateCode[ix.State], tresultCode[ix.Result]})))
	}
	return CList(it)
}

func viewJobStatus(rj *execution.Job) string {
	v := viewCond(rj.Status.Condition)
	v = append(v, phaseCode[rj.Status.Phase], stateCode[rj.Status.State], rj.Status.CreatedTasks, rj.Status.RunningTasks)
	return CPair(CPair(viewRefs(rj.Status.Tasks), CListZ(v)), viewPStatus(rj.Status.ParallelStatus))
}

func taskName(hash string, retry int64) string { return fmt.Sprintf("%s-%s-%d", jobName, hash, retry) }

var _ = strings.Join
