package main

import (
	"context"
	"fmt"
	"sort"
	"strings"
	"time"

	metav1 "k8s.io/apimachinery/pkg/apis/meta/v1"
	"k8s.io/apimachinery/pkg/types"
	"k8s.io/client-go/tools/record"
	"k8s.io/utils/pointer"

	execution "github.com/furiko-io/furiko/apis/execution/v1alpha1"
	"github.com/furiko-io/furiko/pkg/execution/controllers/jobqueuecontroller"
	"github.com/furiko-io/furiko/pkg/execution/stores/activejobstore"
	jobutil "github.com/furiko-io/furiko/pkg/execution/util/job"
	"github.com/furiko-io/furiko/pkg/execution/util/jobconfig"
)

// Family "queue" (C05, C06, C07): the real PerConfigReconciler / IndependentReconciler,
// JobControl and activejobstore.Store on one JobConfig, against Queue/World.v.

func init() {
	register(&Family{Name: "queue", Run: runQueue, CheckModule: "Cases.QueueCheck", CaseOK: "q_ok"})
}

const jcUID = "jc-uid-1"
const jcName = "jc"

type qOp struct {
	Kind   string `json:"kind"`
	ID     int64  `json:"id,omitempty"`
	Owned  bool   `json:"owned,omitempty"`
	Policy string `json:"policy,omitempty"` // none "" Allow Forbid Enqueue
	After  *int64 `json:"after,omitempty"`
	Max    *int64 `json:"max,omitempty"`
	T      int64  `json:"t,omitempty"`
	N      int    `json:"n,omitempty"`
	Fault  string `json:"fault,omitempty"`
}

type qObs struct {
	Counter int64       `json:"counter"`
	OK      bool        `json:"ok"`
	Armed   bool        `json:"armed"`
	Waiting []string    `json:"waiting,omitempty"` // cached queued Jobs with a start policy whose startAfter is still ahead, as the pass saw them
	Actions []simAction `json:"actions"`
	Jobs    [][]int64   `json:"jobs"` // id, started, terminal, admErr
	Now     int64       `json:"now"`
	Max     int64       `json:"max"`
	View    string      `json:"-"`
}

var policyCtor = map[string]string{"none": "PNone", "": "PAllow", "Allow": "PAllow", "Forbid": "PForbid", "Enqueue": "PEnqueue"}

func (o qOp) coq() string {
	switch o.Kind {
	case "create":
		return CApp("QCreate", CApp("mkQJ", CZ(o.ID), CBool(o.Owned), CZ(o.T), policyCtor[o.Policy], COptZ(o.After), "None", "false", "false", "0%Z"))
	case "finish":
		return CApp("QFinish", CZ(o.ID))
	case "delete":
		return CApp("QDelete", CZ(o.ID))
	case "setmax":
		return CApp("QSetMax", COptZ(o.Max))
	case "clock":
		return CApp("QClock", CZ(o.T))
	case "advcache":
		return CApp("QAdvCache", CNat(o.N))
	case "store":
		return CApp("QDeliverStore", CNat(o.N))
	case "wake":
		return CApp("QDeliverQueue", CNat(o.N))
	case "fault":
		return CApp("QFault", map[string]string{"start": "QFStart", "reject": "QFReject"}[o.Fault])
	case "sync":
		return "QSync"
	case "syncindep":
		return CApp("QSyncIndep", CZ(o.ID))
	case "restart":
		return "QRestart"
	case "touch":
		return CApp("QTouch", CZ(o.ID))
	}
	panic(o.Kind)
}

type qImpl struct {
	sc    *SimContext
	api   *SimAPI
	qctx  *jobqueuecontroller.Context
	store *activejobstore.Store
	per   *jobqueuecontroller.PerConfigReconciler
	indep *jobqueuecontroller.IndependentReconciler
	jcq   *SimQueue
	iq    *SimQueue
	jc    *execution.JobConfig
}

func jobNameOf(id int64) string { return fmt.Sprintf("job%d", id) }

func (im *qImpl) boot() { im.bootStandby(nil) }

// bootStandby is boot with a standby phase: the process is constructed (NewStore, as the
// controller manager does for every replica), then waits for leader election while the
// informers run and another leader works (standby), and only then recovers its stores.
func (im *qImpl) bootStandby(standby func()) {
	// (re)start: fresh handlers, store recovered from the cache, controllers initialised
	im.sc.informers.Jobs.handlers = nil
	im.sc.ResetStores()
	st, err := activejobstore.NewStore(im.sc)
	if err != nil {
		panic(err)
	}
	if standby != nil {
		standby()
	}
	if err := st.Recover(context.Background()); err != nil {
		panic(err)
	}
	im.store = st
	im.sc.RegisterStore(st)
	im.qctx = jobqueuecontroller.NewContextWithRecorder(im.sc, record.NewFakeRecorder(1000000))
	im.jcq, im.iq = NewSimQueue(), NewSimQueue()
	im.qctx.VerifSetQueues(im.jcq, im.iq)
	jobqueuecontroller.NewInformerWorker(im.qctx)
	ctl := jobqueuecontroller.NewJobControl(im.sc.Clientsets().Furiko().ExecutionV1alpha1(), record.NewFakeRecorder(1000000))
	im.per = jobqueuecontroller.NewPerConfigReconciler(im.qctx, nil, ctl)
	im.indep = jobqueuecontroller.NewIndependentReconciler(im.qctx, nil, ctl)
	// the replayed Adds of existing objects are delivered before the controllers run
	im.sc.informers.Jobs.DeliverAll()
	im.jcq.ready, im.jcq.dirty = nil, map[string]bool{}
}

func newQImpl(now int64, max *int64) *qImpl {
	im := &qImpl{sc: NewSimContext()}
	im.api = NewSimAPI(im.sc, now)
	im.jc = &execution.JobConfig{ObjectMeta: metav1.ObjectMeta{Namespace: "ns", Name: jcName, UID: types.UID(jcUID)}}
	im.jc.Spec.Concurrency.Policy = execution.ConcurrencyPolicyForbid
	im.jc.Spec.Concurrency.MaxConcurrency = max
	im.sc.informers.JobConfigs.Set(im.jc)
	im.boot()
	return im
}

func (im *qImpl) view(obs *qObs) {
	obs.Counter = im.store.CountActiveJobsForConfig(im.jc)
	obs.Now = im.api.now()
	obs.Max = im.jc.Spec.Concurrency.GetMaxConcurrency()
	var jobs [][]int64
	for i := int64(1); i < 200; i++ {
		rj := im.api.getJob(jobNameOf(i))
		if rj == nil {
			continue
		}
		term, adm := int64(0), int64(0)
		if rj.Status.Phase.IsTerminal() {
			term = 1
		}
		if _, ok := jobutil.GetAdmissionErrorMessage(rj); ok {
			adm = 1
		}
		jobs = append(jobs, []int64{i, ozt(rj.Status.StartTime), term, adm})
	}
	obs.Jobs = jobs
	ok, armed := int64(0), int64(0)
	if obs.OK {
		ok = 1
	}
	if obs.Armed {
		armed = 1
	}
	var jl, al []string
	for _, j := range jobs {
		jl = append(jl, CListZ(j))
	}
	for _, a := range obs.Actions {
		var id int64
		fmt.Sscanf(a.Name, "job%d", &id)
		code := int64(0)
		if a.Verb == "update-job" {
			code = 1
		}
		al = append(al, CListZ([]int64{code, id, a.Outcome}))
	}
	obs.View = CPair(CPair(CListZ([]int64{obs.Counter, ok, armed}), CList(jl)), CList(al))
}

func (im *qImpl) apply(o qOp) qObs {
	obs := qObs{OK: true}
	im.api.actions = nil
	switch o.Kind {
	case "create":
		rj := &execution.Job{ObjectMeta: metav1.ObjectMeta{Namespace: "ns", Name: jobNameOf(o.ID), UID: types.UID(fmt.Sprintf("job-uid-%d", o.ID)),
			CreationTimestamp: metav1.NewTime(time.Unix(o.T, 0).UTC())}}
		if o.Owned {
			rj.Labels = map[string]string{jobconfig.LabelKeyJobConfigUID: jcUID}
			tr := true
			rj.OwnerReferences = []metav1.OwnerReference{{APIVersion: "execution.furiko.io/v1alpha1", Kind: "JobConfig", Name: jcName, UID: types.UID(jcUID), Controller: &tr, BlockOwnerDeletion: &tr}}
		}
		if o.Policy != "none" {
			rj.Spec.StartPolicy = &execution.StartPolicySpec{ConcurrencyPolicy: execution.ConcurrencyPolicy(o.Policy), StartAfter: mtp(o.After)}
		}
		rj.Status.Phase = execution.JobQueued
		im.api.storeJob(rj, true)
	case "finish":
		if rj := im.api.getJob(jobNameOf(o.ID)); rj != nil {
			rj = rj.DeepCopy()
			rj.Status.Phase = execution.JobSucceeded
			if _, ok := jobutil.GetAdmissionErrorMessage(rj); ok {
				rj.Status.Phase = execution.JobAdmissionError
			}
			im.api.storeJob(rj, false)
		}
	case "delete":
		if rj := im.api.getJob(jobNameOf(o.ID)); rj != nil {
			im.api.removeJob(rj.Name)
		}
	case "touch":
		// the user deletes the Job while a finalizer holds it: deletionTimestamp set, nothing else
		if rj := im.api.getJob(jobNameOf(o.ID)); rj != nil {
			rj = rj.DeepCopy()
			if rj.DeletionTimestamp == nil {
				rj.DeletionTimestamp = mtp(ip(im.api.now()))
			}
			if len(rj.Finalizers) == 0 {
				rj.Finalizers = []string{"execution.furiko.io/delete-dependents-finalizer"}
			}
			im.api.storeJob(rj, false)
		}
	case "setmax":
		im.jc = im.jc.DeepCopy()
		im.jc.Spec.Concurrency.MaxConcurrency = o.Max
		im.sc.informers.JobConfigs.Set(im.jc)
	case "clock":
		if o.T > im.api.now() {
			im.api.clk.SetTime(time.Unix(o.T, 0))
		}
	case "advcache":
		// apply events to the cache only; handler deliveries are separate ops
		for n := o.N; n > 0 && len(im.api.jobEv) > 0; n-- {
			e := im.api.jobEv[0]
			im.api.jobEv = im.api.jobEv[1:]
			if e.job != nil {
				im.sc.informers.Jobs.Set(e.job)
			} else {
				im.sc.informers.Jobs.Remove("ns/" + e.name)
			}
		}
	case "store":
		for n := o.N; n > 0; n-- {
			im.sc.informers.Jobs.Deliver(0)
		}
	case "wake":
		for n := o.N; n > 0; n-- {
			im.sc.informers.Jobs.Deliver(1)
		}
	case "fault":
		im.api.faults = append(im.api.faults, map[string]string{"start": "update-status", "reject": "update-job"}[o.Fault])
	case "sync":
		before := len(im.jcq.Log)
		for _, x := range im.sc.informers.Jobs.sortedList() {
			rj := x.(*execution.Job)
			if ref := metav1.GetControllerOf(rj); ref != nil && jobutil.IsQueued(rj) && rj.Spec.StartPolicy != nil &&
				rj.Spec.StartPolicy.StartAfter != nil && rj.Spec.StartPolicy.StartAfter.Unix() > im.api.now() {
				obs.Waiting = append(obs.Waiting, rj.Name)
			}
		}
		err := im.per.SyncOne(context.Background(), "ns", jcName, 0)
		obs.OK = err == nil
		for _, l := range im.jcq.Log[before:] {
			if strings.HasPrefix(l, "after ") {
				obs.Armed = true
			}
		}
	case "syncindep":
		before := len(im.iq.Log)
		if x, ok, _ := im.sc.informers.Jobs.GetIndexer().GetByKey("ns/" + jobNameOf(o.ID)); ok {
			rj := x.(*execution.Job)
			if jobutil.IsQueued(rj) && rj.Spec.StartPolicy != nil && rj.Spec.StartPolicy.StartAfter != nil && rj.Spec.StartPolicy.StartAfter.Unix() > im.api.now() {
				obs.Waiting = append(obs.Waiting, rj.Name)
			}
		}
		err := im.indep.SyncOne(context.Background(), "ns", jobNameOf(o.ID), 0)
		obs.OK = err == nil
		for _, l := range im.iq.Log[before:] {
			if strings.HasPrefix(l, "after ") {
				obs.Armed = true
			}
		}
	case "restart":
		for len(im.api.jobEv) > 0 {
			e := im.api.jobEv[0]
			im.api.jobEv = im.api.jobEv[1:]
			if e.job != nil {
				im.sc.informers.Jobs.Set(e.job)
			} else {
				im.sc.informers.Jobs.Remove("ns/" + e.name)
			}
		}
		im.boot()
	}
	obs.Actions = append([]simAction{}, im.api.actions...)
	im.view(&obs)
	return obs
}

func runQueue(ctx *RunCtx) *Result {
	res := NewResult()
	p := NewPRNG(ctx.Seed)
	for i := 0; i < ctx.N; i++ {
		c := p.Fork()
		now := int64(1700000000)
		var max *int64
		if c.Chance(2, 3) {
			max = pointer.Int64(Pick(c, []int64{1, 1, 2, 3}))
		}
		im := newQImpl(now, max)
		var ops []qOp
		var obs []qObs
		do := func(o qOp) {
			ops = append(ops, o)
			obs = append(obs, im.apply(o))
			res.Count("op-" + o.Kind)
		}
		settle := func() {
			do(qOp{Kind: "advcache", N: 1000})
			do(qOp{Kind: "store", N: 1000})
			do(qOp{Kind: "wake", N: 1000})
		}
		nextID := int64(1)
		created := now
		var ids, indepIDs []int64
		lag := c.Chance(1, 2)
		nops := 15 + c.Intn(45)
		for k := 0; k < nops; k++ {
			switch r := c.Intn(100); {
			case r < 22: // a new Job arrives (distinct creation seconds)
				created += 1 + int64(c.Intn(3))
				if created > im.api.now() {
					do(qOp{Kind: "clock", T: created})
				}
				o := qOp{Kind: "create", ID: nextID, T: created, Owned: !c.Chance(1, 6)}
				o.Policy = Pick(c, []string{"none", "", "Allow", "Forbid", "Forbid", "Enqueue", "Enqueue", "Enqueue"})
				if o.Policy != "none" && c.Chance(1, 4) {
					o.After = ip(im.api.now() + Pick(c, []int64{-10, -1, 0, 1, 5, 60}))
				}
				ids = append(ids, nextID)
				if !o.Owned {
					indepIDs = append(indepIDs, nextID)
				}
				nextID++
				do(o)
			case r < 45:
				if !lag || c.Chance(1, 2) {
					settle()
				}
				do(qOp{Kind: "sync"})
			case r < 52:
				// the informer routes only Jobs without a JobConfig to the independent reconciler
				if len(indepIDs) > 0 {
					if !lag || c.Chance(1, 2) {
						settle()
					}
					do(qOp{Kind: "syncindep", ID: Pick(c, indepIDs)})
				}
			case r < 64:
				if len(ids) > 0 {
					do(qOp{Kind: "finish", ID: Pick(c, ids)})
				}
			case r < 69:
				if len(ids) > 0 {
					do(qOp{Kind: "delete", ID: Pick(c, ids)})
				}
			case r < 77:
				do(qOp{Kind: "clock", T: im.api.now() + Pick(c, []int64{1, 1, 4, 5, 6, 59, 60, 61})})
			case r < 83:
				do(qOp{Kind: "advcache", N: 1 + c.Intn(3)})
			case r < 89:
				do(qOp{Kind: "store", N: 1 + c.Intn(3)})
			case r < 92:
				do(qOp{Kind: "wake", N: 1 + c.Intn(3)})
			case r < 95:
				var m *int64
				if c.Chance(3, 4) {
					m = pointer.Int64(Pick(c, []int64{1, 2, 3}))
				}
				do(qOp{Kind: "setmax", Max: m})
			case r < 97:
				do(qOp{Kind: "fault", Fault: Pick(c, []string{"start", "start", "reject"})})
			case r < 98:
				if len(ids) > 0 {
					do(qOp{Kind: "touch", ID: Pick(c, ids)})
					if c.Chance(1, 2) {
						settle()
						do(qOp{Kind: "restart"})
					}
				}
			default:
				do(qOp{Kind: "restart"})
			}
		}
		// quiescence: everything delivered, time past every startAfter, passes until nothing happens
		do(qOp{Kind: "clock", T: im.api.now() + 120})
		// (at least 4 rounds; more while a pass still fails on a left-over injected fault)
		for k := 0; k < 24; k++ {
			settle()
			quiet := true
			do(qOp{Kind: "sync"})
			if ob := obs[len(obs)-1]; !ob.OK {
				quiet = false
			}
			for _, id := range indepIDs {
				do(qOp{Kind: "syncindep", ID: id})
				if ob := obs[len(obs)-1]; !ob.OK {
					quiet = false
				}
			}
			if quiet && k >= 3 {
				break
			}
		}
		settle()
		opTerms := make([]string, len(ops))
		obTerms := make([]string, len(obs))
		nact := 0
		for k := range ops {
			opTerms[k] = ops[k].coq()
			obTerms[k] = obs[k].View
			nact += len(obs[k].Actions)
		}
		term := CApp("mkQC", CZ(now), COptZ(max), CList(opTerms), CList(obTerms))
		js := map[string]interface{}{"now": now, "max": max, "ops": ops, "obs": obs}
		res.Distribution["actions"] += nact
		res.Add(term, js, fmt.Sprintf("%d|%d|%d", ctx.Seed, i, nact), nact > 0)
		queueMonitor(res, ops, obs, js)

		// Epilogue (implementation only, after the modelled history): the Job and JobConfig
		// informers fill independently (e.g. after a restart), so a Job's Add event can reach
		// the controller before its JobConfig is in the JobConfig cache. The handler must
		// neither hand an owned Job to the independent reconciler (no concurrency check there:
		// C05, C06) nor lose it for good: the next informer resync must put the JobConfig on the
		// work queue (C07 "started without further user action"). Passes run only for keys the
		// real handlers queued.
		if c.Chance(1, 2) {
			im.api.faults = nil
			settleQ := func() {
				im.apply(qOp{Kind: "advcache", N: 1000})
				im.apply(qOp{Kind: "store", N: 1000})
				im.apply(qOp{Kind: "wake", N: 1000})
			}
			trueActive := func() int64 {
				n := int64(0)
				for _, rj := range im.api.listJobs() {
					if metav1.GetControllerOf(rj) != nil && !rj.Status.StartTime.IsZero() && !rj.Status.Phase.IsTerminal() && rj.DeletionTimestamp == nil {
						n++
					}
				}
				return n
			}
			standby := ""
			if c.Chance(1, 2) {
				// this replica was a standby first: constructed, informers running, another leader
				// started and finished a Job of the JobConfig; then this replica is elected and
				// recovers. The recovered counter must be the number of active Jobs.
				settleQ()
				sid := nextID
				nextID++
				im.bootStandby(func() {
					rj := &execution.Job{ObjectMeta: metav1.ObjectMeta{Namespace: "ns", Name: jobNameOf(sid), UID: types.UID(fmt.Sprintf("job-uid-%d", sid)),
						CreationTimestamp: metav1.NewTime(time.Unix(created+1, 0).UTC()),
						Labels:            map[string]string{jobconfig.LabelKeyJobConfigUID: jcUID}}}
					tr := true
					rj.OwnerReferences = []metav1.OwnerReference{{APIVersion: "execution.furiko.io/v1alpha1", Kind: "JobConfig", Name: jcName, UID: types.UID(jcUID), Controller: &tr, BlockOwnerDeletion: &tr}}
					rj.Spec.StartPolicy = &execution.StartPolicySpec{ConcurrencyPolicy: execution.ConcurrencyPolicyAllow}
					rj.Status.Phase = execution.JobRunning
					rj.Status.StartTime = mtp(ip(im.api.now()))
					im.api.storeJob(rj, true)
					im.apply(qOp{Kind: "advcache", N: 1000})
					im.sc.informers.Jobs.DeliverAll()
					fin := rj.DeepCopy()
					fin.Status.Phase = execution.JobSucceeded
					im.api.storeJob(fin, false)
					im.apply(qOp{Kind: "advcache", N: 1000})
					im.sc.informers.Jobs.DeliverAll()
				})
				settleQ()
				standby = fmt.Sprintf("standby replica: constructed; another leader starts and finishes job%d; elected, stores recovered; ", sid)
				if cnt, act := im.store.CountActiveJobsForConfig(im.jc), trueActive(); cnt < act {
					res.Hits = append(res.Hits, MonitorHit{"C05", "C05/recovered-count-wrong-after-standby",
						fmt.Sprintf("after recovery the store counts %d active Jobs of the JobConfig, %d are started, unfinished and not being deleted", cnt, act),
						map[string]interface{}{"now": now, "max": max, "ops": ops, "epilogue": standby}})
				}
			}
			policy := "Allow"
			if mx := im.jc.Spec.Concurrency.MaxConcurrency; mx != nil {
				policy = Pick(c, []string{"Allow", "Enqueue", "Forbid"})
				// fill up to the limit through the normal path, so that the limit is what decides
				for k := 0; k < 4 && policy != "Allow" && trueActive() < *mx; k++ {
					im.apply(qOp{Kind: "create", ID: nextID, Owned: true, Policy: "Allow", T: created + 1 + int64(k)})
					nextID++
					settleQ()
					im.apply(qOp{Kind: "sync"})
				}
				settleQ()
				if policy != "Allow" && trueActive() < *mx {
					policy = "Allow"
				}
			}
			id := nextID
			before := trueActive()
			im.sc.informers.JobConfigs.Remove("ns/" + jcName)
			im.apply(qOp{Kind: "create", ID: id, Owned: true, Policy: policy, T: created + 10})
			settleQ()
			// whatever the handler put on the independent queue is worked
			for im.iq.Len() > 0 {
				k, _ := im.iq.Get()
				im.iq.Done(k)
				name := strings.TrimPrefix(k.(string), "ns/")
				_ = im.indep.SyncOne(context.Background(), "ns", name, 0)
			}
			startedEarly := false
			if rj := im.api.getJob(jobNameOf(id)); rj != nil && !rj.Status.StartTime.IsZero() {
				startedEarly = true
			}
			im.sc.informers.JobConfigs.Set(im.jc)
			for im.jcq.Len() > 0 {
				k, _ := im.jcq.Get()
				im.jcq.Done(k)
			}
			im.sc.informers.Jobs.Resync()
			im.apply(qOp{Kind: "store", N: 1000})
			im.apply(qOp{Kind: "wake", N: 1000})
			woken := im.jcq.HasReady("ns/" + jcName)
			if woken {
				im.apply(qOp{Kind: "sync"})
			}
			res.Count("epilogue-" + policy)
			epi := map[string]interface{}{"now": now, "max": max, "ops": ops, "epilogue": standby + fmt.Sprintf("fill to the limit; create job%d (%s) while the JobConfig cache lags; work the independent queue; JobConfig arrives; resync", id, policy)}
			rj := im.api.getJob(jobNameOf(id))
			started := rj != nil && !rj.Status.StartTime.IsZero()
			if policy == "Allow" && !started {
				res.Hits = append(res.Hits, MonitorHit{"C07", "C07/due-job-never-woken",
					fmt.Sprintf("job%d (Allow, due) was delivered before its JobConfig was cached; after the JobConfig arrived and the informer resynced, the JobConfig is on the work queue: %v; the Job is not started", id, woken), epi})
			}
			if policy != "Allow" && started {
				what := fmt.Sprintf("job%d (%s) was started with %d Jobs of the JobConfig already active, maxConcurrency %d (started by the independent reconciler before the JobConfig was cached: %v)", id, policy, before, *im.jc.Spec.Concurrency.MaxConcurrency, startedEarly)
				res.Hits = append(res.Hits, MonitorHit{"C05", "C05/exceeds-max-concurrency", what, epi})
				res.Hits = append(res.Hits, MonitorHit{"C06", "C06/limit-ignored-for-" + strings.ToLower(policy), what, epi})
			}
		}
	}
	return res
}

// queueMonitor judges a history against C05 (never more than maxConcurrency active Jobs of
// the JobConfig at a start of a Forbid/Enqueue Job), C06 (Forbid refused / Enqueue never
// refused, FIFO among Enqueue Jobs, nothing startable left queued at quiescence) and C07
// (no start before startAfter; every due Job started at quiescence), on the API truth.
func queueMonitor(res *Result, ops []qOp, obs []qObs, js interface{}) {
	hit := func(prop, sig, what string) { res.Hits = append(res.Hits, MonitorHit{prop, sig, what, js}) }
	spec := map[int64]qOp{}
	var prev [][]int64
	findJob := func(jobs [][]int64, id int64) []int64 {
		for _, j := range jobs {
			if j[0] == id {
				return j
			}
		}
		return nil
	}
	for k, o := range ops {
		ob := obs[k]
		if o.Kind == "create" {
			spec[o.ID] = o
		}
		// the state the pass has reached so far (earlier actions of the same pass applied)
		prev = append([][]int64{}, prev...)
		for i := range prev {
			prev[i] = append([]int64{}, prev[i]...)
		}
		for _, a := range ob.Actions {
			var id int64
			fmt.Sscanf(a.Name, "job%d", &id)
			sp := spec[id]
			if a.Verb == "update-status" && a.Outcome == 0 {
				// a start
				if sp.After != nil && sp.Policy != "none" && ob.Now < *sp.After {
					hit("C07", "C07/started-before-startAfter", fmt.Sprintf("op %d: job%d started at %d, startAfter %d", k, id, ob.Now, *sp.After))
				}
				if sp.Owned && (sp.Policy == "Forbid" || sp.Policy == "Enqueue") {
					active := int64(0)
					for _, j := range prev {
						if spec[j[0]].Owned && j[1] >= 0 && j[2] == 0 {
							active++
						}
					}
					if active+1 > ob.Max {
						hit("C05", "C05/exceeds-max-concurrency", fmt.Sprintf("op %d: job%d (%s) started while %d Jobs of the JobConfig are active, maxConcurrency %d", k, id, sp.Policy, active, ob.Max))
					}
				}
				if sp.Owned && sp.Policy == "Enqueue" {
					for _, j := range prev {
						q := spec[j[0]]
						if j[0] != id && q.Owned && q.Policy == "Enqueue" && j[1] < 0 && j[2] == 0 && j[3] == 0 && q.T < sp.T && (q.After == nil || *q.After <= ob.Now) {
							hit("C06", "C06/enqueue-overtaken", fmt.Sprintf("op %d: job%d (created %d) started while the earlier Enqueue job%d (created %d) is still queued and due", k, id, sp.T, j[0], q.T))
						}
					}
				}
			}
			if a.Verb == "update-status" && a.Outcome == 0 {
				if pj := findJob(prev, id); pj != nil {
					pj[1] = ob.Now
				}
			}
			if a.Verb == "update-job" && a.Outcome == 0 && sp.Policy != "Forbid" {
				hit("C06", "C06/non-forbid-job-rejected", fmt.Sprintf("op %d: job%d with policy %q was refused", k, id, sp.Policy))
			}
		}
		prev = ob.Jobs
	}
	// a pass in which a start or refuse write failed must return an error: only then is the key
	// re-added to the work queue; a swallowed error means the Job is never started
	for k := range ops {
		if (ops[k].Kind == "sync" || ops[k].Kind == "syncindep") && obs[k].OK {
			for _, a := range obs[k].Actions {
				if a.Outcome == 2 || a.Outcome == 3 {
					hit("C07", "C07/failed-start-not-retried", fmt.Sprintf("op %d: %s %s failed (outcome %d) but the pass reported success: the work queue forgets the key, nothing starts the Job later", k, a.Verb, a.Name, a.Outcome))
					hit("C20", "C20/failed-call-not-retried", fmt.Sprintf("op %d: %s %s failed (outcome %d) but the pass reported success", k, a.Verb, a.Name, a.Outcome))
					hit("C06", "C06/failed-write-not-retried", fmt.Sprintf("op %d: %s %s failed (outcome %d) but the pass reported success", k, a.Verb, a.Name, a.Outcome))
					break
				}
			}
		}
	}
	// a pass that ends without error while a Job it saw is still waiting for its startAfter must
	// arm a deferred re-sync: nothing else wakes the controller when the time comes
	for k := range ops {
		if (ops[k].Kind == "sync" || ops[k].Kind == "syncindep") && obs[k].OK && len(obs[k].Waiting) > 0 && !obs[k].Armed {
			hit("C07", "C07/no-timer-for-start-after", fmt.Sprintf("op %d: %v wait for their startAfter (clock %d); the pass armed no re-sync", k, obs[k].Waiting, obs[k].Now))
		}
	}
	// quiescence: judged only when the last pass of each reconciler succeeded
	// (a pass that failed on an injected fault is retried by the work queue: not quiescent yet)
	for k := len(ops) - 1; k >= 0; k-- {
		if ops[k].Kind == "sync" || ops[k].Kind == "syncindep" {
			if !obs[k].OK {
				res.Count("history-not-quiescent")
				return
			}
			if ops[k].Kind == "sync" {
				break
			}
		}
	}
	last := obs[len(obs)-1]
	active := int64(0)
	for _, j := range last.Jobs {
		if spec[j[0]].Owned && j[1] >= 0 && j[2] == 0 {
			active++
		}
	}
	ids := []int64{}
	for _, j := range last.Jobs {
		ids = append(ids, j[0])
	}
	sort.Slice(ids, func(a, b int) bool { return ids[a] < ids[b] })
	for _, id := range ids {
		j := findJob(last.Jobs, id)
		sp := spec[id]
		if j[1] >= 0 || j[2] == 1 || j[3] == 1 {
			continue
		}
		if sp.After != nil && sp.Policy != "none" && *sp.After > last.Now {
			continue
		}
		if !sp.Owned {
			hit("C07", "C07/independent-job-not-started", fmt.Sprintf("job%d has no JobConfig, is due, and is still queued at quiescence", id))
			continue
		}
		if sp.Policy == "Enqueue" && active+1 > last.Max {
			continue
		}
		if sp.Policy == "Forbid" && active+1 > last.Max {
			hit("C06", "C06/forbid-job-left-queued", fmt.Sprintf("job%d (Forbid) is neither refused nor started at quiescence with %d active", id, active))
			continue
		}
		if last.Counter != active {
			hit("C05", "C05/counter-differs-at-quiescence", fmt.Sprintf("counter %d but %d Jobs are active; job%d stays queued", last.Counter, active, id))
		}
		hit("C06", "C06/startable-job-left-queued", fmt.Sprintf("job%d (%s) is due and capacity is free (%d active, max %d) but it is still queued at quiescence", id, sp.Policy, active, last.Max))
	}
	if last.Counter != active {
		hit("C05", "C05/counter-differs-at-quiescence", fmt.Sprintf("counter %d but %d Jobs are active at quiescence", last.Counter, active))
	}
}
