package main

import (
	"context"
	"encoding/base64"
	"fmt"
	"sort"
	"strings"

	corev1 "k8s.io/api/core/v1"
	metav1 "k8s.io/apimachinery/pkg/apis/meta/v1"
	"k8s.io/client-go/kubernetes/fake"

	configv1alpha1 "github.com/furiko-io/furiko/apis/config/v1alpha1"
	"github.com/furiko-io/furiko/pkg/runtime/configloader"
	"github.com/furiko-io/furiko/pkg/runtime/controllercontext"
)

// Family "config" (C19): the real ConfigManager with DefaultsLoader, ConfigMapLoader and
// SecretLoader (events delivered synchronously through the verif hooks) read through
// controllercontext.ContextConfigs, against Config/Layer.v.

func init() {
	register(&Family{Name: "config", Run: runConfig, CheckModule: "Cases.ConfigCheck", CaseOK: "cfg_ok"})
}

type cfgField struct {
	Name string
	Type string // FIntP FInt FBoolP FStr FStrP
}

var cfgKinds = []string{"jobs", "jobConfigs", "cron"}
var cfgKindCtor = map[string]string{"jobs": "KJobs", "jobConfigs": "KJobConfigs", "cron": "KCron"}
var cfgSchema = map[string][]cfgField{
	"jobs":       {{"defaultTTLSecondsAfterFinished", "FIntP"}, {"defaultPendingTimeoutSeconds", "FIntP"}, {"forceDeleteTaskTimeoutSeconds", "FIntP"}},
	"jobConfigs": {{"maxEnqueuedJobs", "FIntP"}},
	"cron": {{"cronFormat", "FStr"}, {"cronHashNames", "FBoolP"}, {"cronHashSecondsByDefault", "FBoolP"}, {"cronHashFields", "FBoolP"},
		{"defaultTimezone", "FStrP"}, {"maxMissedSchedules", "FIntP"}, {"maxDowntimeThresholdSeconds", "FInt"}},
}

// one value of a document: its JSON text and its model term
type cfgVal struct{ Text, Term string }

func genCfgVal(c *PRNG, t string) cfgVal {
	right := !c.Chance(1, 7)
	num := func() cfgVal {
		z := Pick(c, []int64{0, 0, 1, 7, 60, 3600, -1, 100000})
		return cfgVal{fmt.Sprint(z), CApp("JNum", CZ(z))}
	}
	str := func() cfgVal {
		s := Pick(c, []string{"", "", "standard", "quartz", "UTC", "Asia/Singapore", "0", "true", "null"})
		return cfgVal{fmt.Sprintf("%q", s), CApp("JStr", CStr(s))}
	}
	boolean := func() cfgVal {
		b := c.Bool()
		return cfgVal{fmt.Sprint(b), CApp("JBool", CBool(b))}
	}
	if c.Chance(1, 10) {
		return cfgVal{"null", "JNull"}
	}
	if !right {
		switch c.Intn(5) {
		case 0:
			return num()
		case 1:
			return str()
		case 2:
			return boolean()
		case 3:
			return Pick(c, []cfgVal{{"[1, 2]", "(JList false)"}, {"[]", "(JList true)"}, {"{\"a\": 1}", "(JMap false)"}, {"{}", "(JMap true)"}})
		default:
			z := Pick(c, []int64{0, 2, -3, 59})
			return cfgVal{fmt.Sprintf("%d.5", z), CApp("JFrac", CZ(z))}
		}
	}
	switch t {
	case "FIntP", "FInt":
		return num()
	case "FBoolP":
		return boolean()
	default:
		return str()
	}
}

// genDoc: a document for one kind: a subset of its fields (plus sometimes an unknown one).
func genDoc(c *PRNG, kind string) (text, term string, doc cfgDoc) {
	doc = cfgDoc{}
	var lines, kv []string
	fields := cfgSchema[kind]
	if fields == nil {
		fields = []cfgField{{"whatever", "FInt"}}
	}
	style := c.Intn(2) // 0 yaml, 1 json
	for _, f := range fields {
		if !c.Chance(2, 5) {
			continue
		}
		v := genCfgVal(c, f.Type)
		lines = append(lines, fmt.Sprintf("%q: %s", f.Name, v.Text))
		kv = append(kv, CPair(CStr(f.Name), v.Term))
		doc[f.Name] = "T:" + f.Type + ":" + v.Term
	}
	if c.Chance(1, 6) {
		lines = append(lines, `"someUnknownField": 3`)
		kv = append(kv, CPair(CStr("someUnknownField"), "(JNum 3)"))
	}
	if style == 1 || len(lines) == 0 {
		text = "{" + strings.Join(lines, ", ") + "}"
	} else {
		text = strings.Join(lines, "\n") + "\n"
	}
	return text, CList(kv), doc
}

var cfgMalformed = []string{"{{{", "", "[1, 2]", "just a string", "a: b: c", "\"cronFormat\": [unclosed", "42", "- x\n- y\n"}

type cfgImpl struct {
	mgr *configloader.ConfigManager
	cm  *configloader.ConfigMapLoader
	sec *configloader.SecretLoader
	cfg *controllercontext.ContextConfigs
}

func newCfgImpl() *cfgImpl {
	cl := fake.NewSimpleClientset()
	im := &cfgImpl{mgr: configloader.NewConfigManager()}
	im.cm = configloader.NewConfigMapLoader(cl, "furiko-system", "execution-dynamic-config")
	im.sec = configloader.NewSecretLoader(cl, "furiko-system", "execution-dynamic-config")
	im.mgr.AddConfigLoaders(configloader.NewDefaultsLoader(), im.cm, im.sec)
	if err := im.mgr.VerifStartWithoutInformers(context.Background()); err != nil {
		panic(err)
	}
	im.cfg = controllercontext.NewContextConfigs(im.mgr)
	return im
}

func pz(p *int64) string {
	if p == nil {
		return "DUnset"
	}
	return CApp("DInt", CZ(*p))
}
func pb(p *bool) string {
	if p == nil {
		return "DUnset"
	}
	return CApp("DBool", CBool(*p))
}
func pstr(p *string) string {
	if p == nil {
		return "DUnset"
	}
	return CApp("DStr", CStr(*p))
}

// read returns the model term of the result and a flat text for the monitor.
func (im *cfgImpl) read(kind string) (string, map[string]string) {
	flat := map[string]string{}
	var kv []string
	add := func(k, term string) {
		kv = append(kv, CPair(CStr(k), term))
		flat[k] = term
	}
	switch kind {
	case "jobs":
		c, err := im.cfg.Jobs()
		if err != nil {
			return "None", nil
		}
		add("defaultTTLSecondsAfterFinished", pz(c.DefaultTTLSecondsAfterFinished))
		add("defaultPendingTimeoutSeconds", pz(c.DefaultPendingTimeoutSeconds))
		add("forceDeleteTaskTimeoutSeconds", pz(c.ForceDeleteTaskTimeoutSeconds))
	case "jobConfigs":
		c, err := im.cfg.JobConfigs()
		if err != nil {
			return "None", nil
		}
		add("maxEnqueuedJobs", pz(c.MaxEnqueuedJobs))
	case "cron":
		c, err := im.cfg.Cron()
		if err != nil {
			return "None", nil
		}
		add("cronFormat", CApp("DStr", CStr(c.CronFormat)))
		add("cronHashNames", pb(c.CronHashNames))
		add("cronHashSecondsByDefault", pb(c.CronHashSecondsByDefault))
		add("cronHashFields", pb(c.CronHashFields))
		add("defaultTimezone", pstr(c.DefaultTimezone))
		add("maxMissedSchedules", pz(c.MaxMissedSchedules))
		add("maxDowntimeThresholdSeconds", CApp("DInt", CZ(c.MaxDowntimeThresholdSeconds)))
	}
	return "(Some " + CList(kv) + ")", flat
}

// what the monitor remembers about one accepted document: field -> expected decoded term, "" = undecodable
type cfgDoc map[string]string

func expectDecoded(t, term string) string {
	switch {
	case term == "JNull":
		switch t {
		case "FInt":
			return "(DInt 0%Z)"
		case "FStr":
			return CApp("DStr", CStr(""))
		}
		return "DUnset"
	case strings.HasPrefix(term, "(JFrac"):
		if t == "FIntP" || t == "FInt" {
			var z int64
			fmt.Sscanf(strings.NewReplacer("(", " ", ")", " ", "%Z", " ").Replace(strings.TrimPrefix(term, "(JFrac")), "%d", &z)
			return CApp("DInt", CZ(z))
		}
	case strings.HasPrefix(term, "(JNum"):
		if t == "FIntP" || t == "FInt" {
			return "(DInt" + strings.TrimPrefix(term, "(JNum")
		}
	case strings.HasPrefix(term, "(JBool"):
		if t == "FBoolP" {
			return "(DBool" + strings.TrimPrefix(term, "(JBool")
		}
	case strings.HasPrefix(term, "(JStr"):
		if t == "FStr" || t == "FStrP" {
			return "(DStr" + strings.TrimPrefix(term, "(JStr")
		}
	}
	return ""
}

func runConfig(ctx *RunCtx) *Result {
	res := NewResult()
	configStartupCheck(res)
	p := NewPRNG(ctx.Seed)
	defaults := map[string]cfgDoc{
		"jobs":       {"defaultTTLSecondsAfterFinished": "(DInt 3600%Z)", "defaultPendingTimeoutSeconds": "(DInt 900%Z)", "forceDeleteTaskTimeoutSeconds": "(DInt 900%Z)"},
		"jobConfigs": {"maxEnqueuedJobs": "(DInt 20%Z)"},
		"cron": {"cronFormat": CApp("DStr", CStr("standard")), "cronHashNames": "(DBool true)", "cronHashSecondsByDefault": "(DBool false)", "cronHashFields": "(DBool true)",
			"defaultTimezone": CApp("DStr", CStr("UTC")), "maxMissedSchedules": "(DInt 5%Z)", "maxDowntimeThresholdSeconds": "(DInt 300%Z)"},
	}
	for i := 0; i < ctx.N; i++ {
		c := p.Fork()
		im := newCfgImpl()
		var opTerms, obsTerms []string
		var jsOps []map[string]interface{}
		var hits []MonitorHit
		hit := func(sig, what string) {
			for _, h := range hits {
				if h.Signature == sig {
					return
				}
			}
			hits = append(hits, MonitorHit{Property: "C19", Signature: sig, What: what})
		}
		// monitor state: last accepted content per source, last good read per kind
		accepted := map[string]map[string]cfgDoc{"cm": {}, "sec": {}}
		lastGood := map[string]map[string]string{}
		nops := 4 + c.Intn(16)
		reads := 0
		for k := 0; k < nops; k++ {
			if c.Chance(1, 2) {
				// ---- a ConfigMap or Secret event ----
				src := Pick(c, []string{"cm", "cm", "sec"})
				mine := !c.Chance(1, 10)
				data := map[string]string{}
				var entries []string
				docs := map[string]cfgDoc{}
				ok := true
				kinds := append([]string{}, cfgKinds...)
				if c.Chance(1, 5) {
					kinds = append(kinds, "unrelated")
				}
				for _, kind := range kinds {
					if !c.Chance(1, 2) {
						continue
					}
					if c.Chance(1, 8) {
						data[kind] = Pick(c, cfgMalformed)
						entries = append(entries, CPair(CStr(kind), "None"))
						ok = false
						continue
					}
					text, term, doc := genDoc(c, kind)
					docs[kind] = doc
					data[kind] = text
					entries = append(entries, CPair(CStr(kind), "(Some "+term+")"))
				}
				badB64 := false
				if src == "cm" {
					name, ns := "execution-dynamic-config", "furiko-system"
					if !mine {
						name = "some-other-configmap"
					}
					im.cm.VerifHandleUpdate(&corev1.ConfigMap{ObjectMeta: metav1.ObjectMeta{Namespace: ns, Name: name}, Data: data})
					opTerms = append(opTerms, CApp("CCm", CBool(mine), CList(entries)))
				} else {
					name := "execution-dynamic-config"
					if !mine {
						name = "some-other-secret"
					}
					d := map[string][]byte{}
					// the model takes entries in key order
					var ks []string
					for kk := range data {
						ks = append(ks, kk)
					}
					sort.Strings(ks)
					for _, kk := range ks {
						d[kk] = []byte(base64.StdEncoding.EncodeToString([]byte(data[kk])))
					}
					if len(ks) > 0 && c.Chance(1, 12) {
						d[ks[0]] = []byte("%%% not base64 %%%")
						badB64 = true
						ok = false
						for j, e := range entries {
							if strings.HasPrefix(e, "("+CStr(ks[0])+",") {
								entries[j] = CPair(CStr(ks[0]), "None")
							}
						}
					}
					im.sec.VerifHandleUpdate(&corev1.Secret{ObjectMeta: metav1.ObjectMeta{Namespace: "furiko-system", Name: name}, Data: d})
					opTerms = append(opTerms, CApp("CSec", CBool(mine), CList(entries)))
				}
				obsTerms = append(obsTerms, "None")
				jsOps = append(jsOps, map[string]interface{}{"event": src, "mine": mine, "data": data, "bad_base64": badB64})
				res.Count("event-" + src)
				if !ok {
					res.Count("event-malformed")
				}
				if ok && mine {
					accepted[src] = docs
				}
				continue
			}
			// ---- a read ----
			kind := Pick(c, cfgKinds)
			term, flat := im.read(kind)
			opTerms = append(opTerms, CApp("CRead", cfgKindCtor[kind]))
			obsTerms = append(obsTerms, term)
			jsOps = append(jsOps, map[string]interface{}{"read": kind, "result": flat})
			reads++
			res.Count("read")
			// monitor: field by field, the highest-priority source that sets the field wins
			want := map[string]string{}
			decodable := true
			mapValued := false
			for _, f := range cfgSchema[kind] {
				w := defaults[kind][f.Name]
				for _, src := range []string{"cm", "sec"} {
					if doc, ok := accepted[src][kind]; ok {
						if v, ok := doc[f.Name]; ok {
							parts := strings.SplitN(v, ":", 3)
							if strings.HasPrefix(parts[2], "(JMap") {
								mapValued = true // mergo merges / drops map values: judged by the model only
							}
							w = expectDecoded(parts[1], parts[2])
						}
					}
				}
				if w == "" {
					decodable = false
				}
				want[f.Name] = w
			}
			switch {
			case mapValued:
				res.Count("read-not-judged-map-value")
				if flat != nil {
					lastGood[kind] = flat
				}
			case decodable:
				if flat == nil {
					hit("C19/good-config-unreadable", fmt.Sprintf("every layer of %s decodes but the read failed", kind))
					break
				}
				for _, f := range cfgSchema[kind] {
					if flat[f.Name] != want[f.Name] {
						hit("C19/field-not-from-highest-priority-source", fmt.Sprintf("%s.%s = %s, the highest-priority source that sets it gives %s", kind, f.Name, flat[f.Name], want[f.Name]))
					}
				}
				lastGood[kind] = flat
			default:
				res.Count("read-undecodable")
				lg := lastGood[kind]
				if lg == nil && flat != nil {
					// no earlier good read: an error is expected, unless a '?' field made an earlier read good
					hit("C19/undecodable-config-served", fmt.Sprintf("%s does not decode and there was no good value, yet a value was returned", kind))
				}
				if lg != nil {
					if flat == nil {
						hit("C19/last-known-good-lost", fmt.Sprintf("%s does not decode; readers got an error instead of the last good value", kind))
					} else if fmt.Sprint(flat) != fmt.Sprint(lg) {
						hit("C19/partially-applied-config", fmt.Sprintf("%s does not decode; readers got %v, the last good value was %v", kind, flat, lg))
					}
				}
			}
		}
		term := CApp("mkCfgCase", CList(opTerms), CList(obsTerms))
		js := map[string]interface{}{"ops": jsOps}
		for _, h := range hits {
			h.Case = js
			res.Hits = append(res.Hits, h)
		}
		res.Add(term, js, fmt.Sprint(opTerms), reads > 1)
	}
	_ = configv1alpha1.JobExecutionConfigName
	return res
}
