package main

import (
	"context"
	"fmt"
	"sync/atomic"
	"time"

	corev1 "k8s.io/api/core/v1"
	metav1 "k8s.io/apimachinery/pkg/apis/meta/v1"
	"k8s.io/apimachinery/pkg/runtime"
	fakeclientset "k8s.io/client-go/kubernetes/fake"
	ktesting "k8s.io/client-go/testing"

	configv1alpha1 "github.com/furiko-io/furiko/apis/config/v1alpha1"
	execution "github.com/furiko-io/furiko/apis/execution/v1alpha1"
	"github.com/furiko-io/furiko/pkg/execution/controllers/croncontroller"
	"github.com/furiko-io/furiko/pkg/execution/controllers/jobcontroller"
	"github.com/furiko-io/furiko/pkg/execution/stores/activejobstore"
	"github.com/furiko-io/furiko/pkg/runtime/configloader"
)

// Start-up checks: the streams assemble each controller from its real parts; these checks run
// the production constructors and Run / Start themselves, once per stream run, on a process
// that starts while its informers are still filling (HasSynced false, caches empty) - the
// state every restarted replica is in - and judge what the property says must hold from then
// on. They only assert facts that hold on any schedule of the goroutines involved.

func waitUntil(d time.Duration, f func() bool) bool {
	deadline := time.Now().Add(d)
	for time.Now().Before(deadline) {
		if f() {
			return true
		}
		time.Sleep(5 * time.Millisecond)
	}
	return f()
}

// cronStartupCheck (C01): a JobConfig that exists before the controller starts is on the
// schedule once Run has returned, also when the JobConfig informer finishes its initial list
// only after Run was called.
func cronStartupCheck(res *Result) {
	sc := NewSimContext()
	st, err := activejobstore.NewStore(sc)
	if err != nil {
		panic(err)
	}
	sc.RegisterStore(st)
	sc.informers.JobConfigs.SetSynced(false)
	ctrl, err := croncontroller.NewController(sc, &configv1alpha1.Concurrency{Workers: 1})
	if err != nil {
		panic(err)
	}
	done := make(chan error, 1)
	ctx, cancel := context.WithCancel(context.Background())
	go func() { done <- ctrl.Run(ctx) }()
	time.Sleep(250 * time.Millisecond)
	// the initial list arrives
	rjc := &execution.JobConfig{ObjectMeta: metav1.ObjectMeta{Namespace: "ns", Name: "present-before-start", UID: "uid-present"}}
	// a schedule with no due time anywhere near: the running worker leaves the heap alone while
	// the check looks at it
	rjc.Spec.Schedule = &execution.ScheduleSpec{Cron: &execution.CronSchedule{Expression: "0 0 29 2 *"}}
	ls := metav1.NewTime(time.Now().Add(-2 * time.Minute))
	rjc.Status.LastScheduled = &ls
	sc.informers.JobConfigs.Set(rjc)
	sc.informers.JobConfigs.SetSynced(true)
	res.Count("startup-check")
	js := map[string]interface{}{"steps": "NewController; Run while the JobConfig informer is still listing; the list (one JobConfig with a schedule) arrives; Run returns"}
	select {
	case err := <-done:
		if err != nil {
			res.Hits = append(res.Hits, MonitorHit{"C01", "C01/controller-does-not-start", fmt.Sprint(err), js})
		} else {
			n := 0
			waitUntil(3*time.Second, func() bool {
				n = 0
				if w := ctrl.VerifCronWorker(); w != nil && w.VerifSchedule() != nil {
					names, _, _ := w.VerifSchedule().VerifDump()
					n = len(names)
				}
				return n == 1
			})
			if n != 1 {
				res.Hits = append(res.Hits, MonitorHit{"C01", "C01/existing-jobconfig-not-scheduled-after-start",
					fmt.Sprintf("Run has returned and the controller reports started; the schedule holds %d JobConfigs, the cache holds 1 with a cron schedule: its times are never requested", n), js})
				// the same fact as C04 reads it: the JobConfig was last scheduled two minutes before the
				// restart; its missed times are to be caught up and scheduling is to continue
				res.Hits = append(res.Hits, MonitorHit{"C04", "C04/no-catch-up-after-restart",
					fmt.Sprintf("restart with a JobConfig that has been scheduled before (status.lastScheduled two minutes back): Run has returned, the schedule holds %d JobConfigs: no catch-up, and no later time is ever requested", n), js})
			}
		}
	case <-time.After(20 * time.Second):
		res.Hits = append(res.Hits, MonitorHit{"C01", "C01/controller-does-not-start", "Run did not return within 20 s of the caches being synced", js})
	}
	cancel()
	ctrl.Shutdown(context.Background())
}

// jobStartupCheck (C09, C12): a controller that starts while the Pod informer is still
// listing must not judge a Job by the empty Pod cache. A Job with one running task and a kill
// timestamp in the past: whatever the controller does, it must not record the Job as finished
// or the task as gone while the Pod is alive and no delete was ever issued for it.
func jobStartupCheck(res *Result) {
	now := int64(1700000000)
	m := &mJob{Shape: "none", MaxAttempts: 1, Finalizer: true}
	m.init()
	cfg := jsCfg{Pending: ip(900), Force: ip(900), TTL: ip(3600)}
	im := newJSImpl(cfg, m, now)
	p0 := taskName(m.Hashes[0], 0)
	settle := func() {
		im.apply(jsOp{Kind: "advjob", N: 1000}, m)
		im.apply(jsOp{Kind: "advpods", N: 1000}, m)
	}
	im.apply(jsOp{Kind: "start"}, m)
	settle()
	im.apply(jsOp{Kind: "sync"}, m)
	im.apply(jsOp{Kind: "kubelet", Name: p0, Step: "schedule"}, m)
	im.apply(jsOp{Kind: "kubelet", Name: p0, Step: "run"}, m)
	settle()
	im.apply(jsOp{Kind: "sync"}, m)
	settle()
	// the controller is down; the user kills the Job
	im.apply(jsOp{Kind: "kill", T: im.api.now()}, m)
	im.apply(jsOp{Kind: "clock", T: im.api.now() + 5}, m)
	settle()
	res.Count("startup-check")
	js := map[string]interface{}{"steps": "Job with one running task; controller down; kill timestamp set; controller restarts (NewController, Run) while the Pod informer is still listing; the list arrives"}
	if im.api.getPod(p0) == nil || im.api.getJob(jobName) == nil {
		panic("startup check: scenario did not produce a running task")
	}
	// restart: a new process, Job cache filled, Pod cache still empty
	im.sc.informers.Jobs.handlers, im.sc.informers.Pods.handlers = nil, nil
	im.sc.informers.Pods.Clear()
	im.sc.informers.Pods.SetSynced(false)
	ctrl, err := jobcontroller.NewController(im.sc, &configv1alpha1.Concurrency{Workers: 1})
	if err != nil {
		panic(err)
	}
	im.sc.informers.Jobs.Resync() // the initial Adds of the Job informer
	im.sc.informers.Jobs.DeliverAll()
	deletes := func() int {
		n := 0
		for _, a := range im.api.actions {
			if a.Verb == "delete" && a.Name == p0 {
				n++
			}
		}
		return n
	}
	judge := func(when string) {
		// the reactors hold this lock while a worker's API call is in progress
		im.api.big.Lock()
		defer im.api.big.Unlock()
		rj, p := im.api.getJob(jobName), im.api.getPod(p0)
		if rj == nil || p == nil || p.DeletionTimestamp != nil || deletes() > 0 {
			return
		}
		if rj.Status.Phase.IsTerminal() {
			res.Hits = append(res.Hits, MonitorHit{"C12", "C12/job-finished-while-task-alive-after-restart",
				fmt.Sprintf("%s: the Job is recorded %s while its task %s is running in the API and no delete was issued for it", when, rj.Status.Phase, p0), js})
		}
		for _, t := range rj.Status.Tasks {
			if t.Name == p0 && (t.DeletedStatus != nil || (t.FinishTimestamp != nil && !t.FinishTimestamp.IsZero())) {
				res.Hits = append(res.Hits, MonitorHit{"C09", "C09/task-recorded-gone-while-alive-after-restart",
					fmt.Sprintf("%s: task %s is recorded finished / deleted (%+v) while its Pod is running in the API", when, p0, t.DeletedStatus), js})
			}
		}
	}
	im.api.actions = nil
	done := make(chan error, 1)
	ctx, cancel := context.WithCancel(context.Background())
	go func() { done <- ctrl.Run(ctx) }()
	time.Sleep(300 * time.Millisecond)
	judge("before the Pod informer has synced")
	// the Pod list arrives
	im.api.big.Lock()
	pods := im.api.listPods()
	im.api.big.Unlock()
	for _, p := range pods {
		im.sc.informers.Pods.Set(p.DeepCopy())
	}
	im.sc.informers.Pods.SetSynced(true)
	select {
	case <-done:
	case <-time.After(20 * time.Second):
		res.Hits = append(res.Hits, MonitorHit{"C12", "C12/controller-does-not-start", "Run did not return within 20 s of the caches being synced", js})
	}
	time.Sleep(300 * time.Millisecond)
	judge("after start-up")
	cancel()
	ctrl.Shutdown(context.Background())
}

// configStartupCheck (C19): a ConfigMap and a Secret that exist before the process starts are
// read before ConfigManager.Start returns - from then on readers are served, and the start-up
// snapshot becomes the last known good.
func configStartupCheck(res *Result) {
	const ns, name = "furiko-system", "execution-dynamic-config"
	client := fakeclientset.NewSimpleClientset(
		&corev1.ConfigMap{ObjectMeta: metav1.ObjectMeta{Namespace: ns, Name: name},
			Data: map[string]string{string(configv1alpha1.JobExecutionConfigName): "defaultPendingTimeoutSeconds: 0\n"}},
		&corev1.Secret{ObjectMeta: metav1.ObjectMeta{Namespace: ns, Name: name},
			Data: map[string][]byte{string(configv1alpha1.JobExecutionConfigName): []byte("ZGVmYXVsdFRUTFNlY29uZHNBZnRlckZpbmlzaGVkOiA3Cg==")}},
	)
	var listed [2]int32
	for i, r := range []string{"configmaps", "secrets"} {
		i := i
		client.PrependReactor("list", r, func(action ktesting.Action) (bool, runtime.Object, error) {
			time.Sleep(200 * time.Millisecond)
			atomic.StoreInt32(&listed[i], 1)
			return false, nil, nil
		})
	}
	mgr := configloader.NewConfigManager()
	mgr.AddConfigLoaders(configloader.NewDefaultsLoader(), configloader.NewConfigMapLoader(client, "", ""), configloader.NewSecretLoader(client, "", ""))
	ctx, cancel := context.WithCancel(context.Background())
	defer cancel()
	res.Count("startup-check")
	js := map[string]interface{}{"steps": "ConfigMap and Secret exist; their first LIST takes 200 ms; ConfigManager.Start"}
	if err := mgr.Start(ctx); err != nil {
		res.Hits = append(res.Hits, MonitorHit{"C19", "C19/manager-does-not-start", fmt.Sprint(err), js})
		return
	}
	for i, r := range []string{"ConfigMap", "Secret"} {
		if atomic.LoadInt32(&listed[i]) == 0 {
			res.Hits = append(res.Hits, MonitorHit{"C19", "C19/start-returns-before-sources-read",
				fmt.Sprintf("ConfigManager.Start returned while the first LIST of the %s (which exists) was still unanswered: readers are served the configuration without that layer, and it becomes the last known good", r), js})
		}
	}
}
