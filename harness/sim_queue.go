package main

import (
	"sort"
	"time"

	"k8s.io/client-go/util/workqueue"
)

// SimQueue is a deterministic workqueue.RateLimitingInterface. Same semantics as
// client-go's queue (dedup of ready keys; a key added while being processed is
// re-queued on Done), but delayed entries fire only when the harness says so:
// the controllers compute delays from the wall clock, which no property depends on.
type SimQueue struct {
	ready      []string
	dirty      map[string]bool
	processing map[string]bool
	Delayed    []string // AddAfter / AddRateLimited entries, in arrival order
	requeues   map[string]int
	shutdown   bool
	Log        []string // every Add/AddAfter/AddRateLimited, for observation
	// Optional clock: when set, DelayedDue[i] is the simulated second at which Delayed[i] is due
	// (rate-limited entries are due at once), and FireDue fires exactly the due entries.
	Now        func() int64
	DelayedDue []int64
}

var _ workqueue.RateLimitingInterface = (*SimQueue)(nil)

func NewSimQueue() *SimQueue {
	return &SimQueue{dirty: map[string]bool{}, processing: map[string]bool{}, requeues: map[string]int{}}
}

func (q *SimQueue) Add(item interface{}) {
	k := item.(string)
	q.Log = append(q.Log, "add "+k)
	if q.shutdown || q.dirty[k] {
		return
	}
	q.dirty[k] = true
	if q.processing[k] {
		return
	}
	q.ready = append(q.ready, k)
}
func (q *SimQueue) Len() int { return len(q.ready) }

// Get never blocks in the simulation: callers check Len first.
func (q *SimQueue) Get() (interface{}, bool) {
	if len(q.ready) == 0 {
		return nil, true
	}
	k := q.ready[0]
	q.ready = q.ready[1:]
	q.processing[k] = true
	delete(q.dirty, k)
	return k, false
}
func (q *SimQueue) Done(item interface{}) {
	k := item.(string)
	delete(q.processing, k)
	if q.dirty[k] {
		q.ready = append(q.ready, k)
	}
}
func (q *SimQueue) ShutDown()          { q.shutdown = true }
func (q *SimQueue) ShutDownWithDrain() { q.shutdown = true }
func (q *SimQueue) ShuttingDown() bool { return q.shutdown }
func (q *SimQueue) AddAfter(item interface{}, d time.Duration) {
	k := item.(string)
	q.Log = append(q.Log, "after "+k)
	if d <= 0 {
		q.Add(item)
		return
	}
	q.Delayed = append(q.Delayed, k)
	due := int64(0)
	if q.Now != nil {
		due = q.Now() + int64((d+time.Second-1)/time.Second)
	}
	q.DelayedDue = append(q.DelayedDue, due)
}
func (q *SimQueue) AddRateLimited(item interface{}) {
	k := item.(string)
	q.Log = append(q.Log, "ratelimited "+k)
	q.requeues[k]++
	q.Delayed = append(q.Delayed, k)
	q.DelayedDue = append(q.DelayedDue, 0)
}
func (q *SimQueue) Forget(item interface{})          { delete(q.requeues, item.(string)) }
func (q *SimQueue) NumRequeues(item interface{}) int { return q.requeues[item.(string)] }

// Fire moves the i-th delayed entry to the ready queue.
func (q *SimQueue) Fire(i int) bool {
	if i < 0 || i >= len(q.Delayed) {
		return false
	}
	k := q.Delayed[i]
	q.Delayed = append(q.Delayed[:i:i], q.Delayed[i+1:]...)
	q.DelayedDue = append(q.DelayedDue[:i:i], q.DelayedDue[i+1:]...)
	q.Add(k)
	return true
}

// FireDue fires every delayed entry whose due time has been reached.
func (q *SimQueue) FireDue(now int64) {
	for i := 0; i < len(q.Delayed); {
		if q.DelayedDue[i] <= now {
			q.Fire(i)
		} else {
			i++
		}
	}
}

// FireKey moves one delayed entry with the given key, if any.
func (q *SimQueue) FireKey(k string) bool {
	for i, d := range q.Delayed {
		if d == k {
			return q.Fire(i)
		}
	}
	return false
}

func (q *SimQueue) FireAll() {
	for len(q.Delayed) > 0 {
		q.Fire(0)
	}
}

func (q *SimQueue) ReadySorted() []string {
	out := append([]string{}, q.ready...)
	sort.Strings(out)
	return out
}
func (q *SimQueue) DelayedSorted() []string {
	out := append([]string{}, q.Delayed...)
	sort.Strings(out)
	return out
}
func (q *SimQueue) HasDelayed(k string) bool {
	for _, d := range q.Delayed {
		if d == k {
			return true
		}
	}
	return false
}
func (q *SimQueue) HasReady(k string) bool {
	for _, d := range q.ready {
		if d == k {
			return true
		}
	}
	return false
}
