package main

import (
	"fmt"
	"sort"
	"strings"
	"time"

	"github.com/furiko-io/cronexpr"
	metav1 "k8s.io/apimachinery/pkg/apis/meta/v1"
	"k8s.io/apimachinery/pkg/types"
	"k8s.io/utils/clock"
	"k8s.io/utils/pointer"

	configv1alpha1 "github.com/furiko-io/furiko/apis/config/v1alpha1"
	execution "github.com/furiko-io/furiko/apis/execution/v1alpha1"
	"github.com/furiko-io/furiko/pkg/execution/controllers/croncontroller"
	"github.com/furiko-io/furiko/pkg/execution/stores/activejobstore"
)

// Family "cron" (C01, C03, C04): the real CronWorker + InformerWorker driven by a
// harness clock and harness-driven informer, against Cron/Sched.v.

func init() {
	register(&Family{Name: "cron", Run: runCron, CheckModule: "Cases.CronCheck", CaseOK: "cron_ok"})
}

const nsPerSec = int64(1000000000)

// seqClock returns scripted readings; the last one is repeated.
type seqClock struct {
	clock.RealClock
	readings []int64 // ns
	i        int
	reads    int
}

func (c *seqClock) Now() time.Time {
	c.reads++
	r := c.readings[c.i]
	if c.i < len(c.readings)-1 {
		c.i++
	}
	return time.Unix(0, r).UTC()
}
func (c *seqClock) Since(t time.Time) time.Duration { return c.Now().Sub(t) }
func (c *seqClock) set(rs ...int64)                 { c.readings = rs; c.i = 0 }

type tzChoice struct {
	Spec string
	Loc  *time.Location // oracle location, built from the generator's structured choice
}

func mustLoc(name string) *time.Location {
	l, err := time.LoadLocation(name)
	if err != nil {
		panic(err)
	}
	return l
}

func tzChoices() []tzChoice {
	return []tzChoice{
		{"", nil}, {"", nil}, {"", nil},
		{"UTC", time.UTC}, {"GMT", time.UTC}, {"Local", time.UTC},
		{"Asia/Singapore", mustLoc("Asia/Singapore")},
		{"America/New_York", mustLoc("America/New_York")},
		{"Europe/London", mustLoc("Europe/London")},
		{"UTC+08:00", time.FixedZone("x", 8*3600)},
		{"UTC-7", time.FixedZone("x", -7*3600)},
		{"GMT+5:30", time.FixedZone("x", 5*3600+1800)},
		{"UTC+0530", time.FixedZone("x", 5*3600+1800)},
		{"GMT-03", time.FixedZone("x", -3*3600)},
		{"UTC-09:30", time.FixedZone("x", -(9*3600 + 1800))},
		{"UTC+1:00", time.FixedZone("x", 3600)},
		{"UTC+5:45", time.FixedZone("x", 5*3600+2700)},
		{"UTC-3:30", time.FixedZone("x", -(3*3600 + 1800))},
		{"GMT+9:30", time.FixedZone("x", 9*3600+1800)},
	}
}

type cronCfg struct {
	MaxMissed   *int64
	MaxDowntime int64
	DefaultTz   *string
	DefaultLoc  *time.Location
	Format      string
	HashNames   *bool
	HashSeconds *bool
	HashFields  *bool
}

func (c cronCfg) obj() *configv1alpha1.CronExecutionConfig {
	return &configv1alpha1.CronExecutionConfig{
		CronFormat:                  c.Format,
		CronHashNames:               c.HashNames,
		CronHashSecondsByDefault:    c.HashSeconds,
		CronHashFields:              c.HashFields,
		DefaultTimezone:             c.DefaultTz,
		MaxMissedSchedules:          c.MaxMissed,
		MaxDowntimeThresholdSeconds: c.MaxDowntime,
	}
}

// oracleParse is the harness's own reading of how an expression must be parsed
// under a cron configuration (independent of pkg/execution/util/cron/parser.go).
func (c cronCfg) oracleParse(line, hashID string) (*cronexpr.Expression, error) {
	format := cronexpr.CronFormatStandard
	if c.Format == "quartz" {
		format = cronexpr.CronFormatQuartz
	}
	var opts []cronexpr.ParseOption
	if c.HashNames == nil || *c.HashNames {
		opts = append(opts, cronexpr.WithHash(hashID))
		if c.HashSeconds != nil && *c.HashSeconds {
			opts = append(opts, cronexpr.WithHashEmptySeconds())
		}
		if c.HashFields == nil || *c.HashFields {
			opts = append(opts, cronexpr.WithHashFields())
		}
	}
	return cronexpr.ParseForFormat(format, line, opts...)
}

type jcVersion struct {
	Name        string
	Key         int64
	UID         string
	HasSchedule bool
	Disabled    bool
	HasCron     bool
	Exprs       []string
	UseList     bool
	Tz          tzChoice
	Nbf, Naf    *int64 // unix seconds
	Ls, Lu      *int64
	fires       [][]int64 // oracle, filled by computeFires
	rv          string    // resourceVersion, one per version (assigned at first use)
}

var cronRV int64

func (v *jcVersion) active() bool { return v.HasSchedule && !v.Disabled && v.HasCron }

func mt(p *int64) *metav1.Time {
	if p == nil {
		return nil
	}
	t := metav1.NewTime(time.Unix(*p, 0).UTC())
	return &t
}

func (v *jcVersion) obj() *execution.JobConfig {
	if v.rv == "" {
		cronRV++
		v.rv = fmt.Sprint(cronRV)
	}
	jc := &execution.JobConfig{
		ObjectMeta: metav1.ObjectMeta{Namespace: nsOf(v.Name), Name: bareOf(v.Name), UID: types.UID(v.UID), ResourceVersion: v.rv},
	}
	jc.Spec.Concurrency.Policy = execution.ConcurrencyPolicyAllow
	if v.HasSchedule {
		s := &execution.ScheduleSpec{Disabled: v.Disabled, LastUpdated: mt(v.Lu)}
		if v.HasCron {
			c := &execution.CronSchedule{Timezone: v.Tz.Spec}
			if v.UseList {
				c.Expressions = append(execution.CronExpressionList{}, v.Exprs...)
			} else if len(v.Exprs) > 0 {
				c.Expression = v.Exprs[0]
			}
			s.Cron = c
		}
		if v.Nbf != nil || v.Naf != nil {
			s.Constraints = &execution.ScheduleContraints{NotBefore: mt(v.Nbf), NotAfter: mt(v.Naf)}
		}
		jc.Spec.Schedule = s
	}
	jc.Status.LastScheduled = mt(v.Ls)
	return jc
}

func eqp(a, b *int64) bool {
	if a == nil || b == nil {
		return a == b
	}
	return *a == *b
}

// scheduleChanged is the harness's own notion of "spec.schedule differs".
func scheduleChanged(a, b *jcVersion) bool {
	if a.HasSchedule != b.HasSchedule {
		return true
	}
	if !a.HasSchedule {
		return false
	}
	if a.Disabled != b.Disabled || a.HasCron != b.HasCron || !eqp(a.Nbf, b.Nbf) || !eqp(a.Naf, b.Naf) || !eqp(a.Lu, b.Lu) {
		return true
	}
	if a.HasCron {
		if a.Tz.Spec != b.Tz.Spec || a.UseList != b.UseList || strings.Join(a.exprsUsed(), "\x00") != strings.Join(b.exprsUsed(), "\x00") {
			return true
		}
	}
	return false
}

func (v *jcVersion) exprsUsed() []string {
	if !v.HasCron || len(v.Exprs) == 0 {
		return nil
	}
	if v.UseList {
		return v.Exprs
	}
	return v.Exprs[:1]
}

// computeFires fills the oracle lists: per expression, the matching Unix seconds
// in [lo, hi] in the effective location.
func (v *jcVersion) computeFires(cfg cronCfg, lo, hi int64) error {
	v.fires = nil
	if !v.active() {
		return nil
	}
	loc := v.Tz.Loc
	if loc == nil {
		loc = cfg.DefaultLoc
	}
	for _, line := range v.exprsUsed() {
		e, err := cfg.oracleParse(line, fullKey(v.Name))
		if err != nil {
			return err
		}
		var l []int64
		t := time.Unix(lo, 0).In(loc).Add(-time.Nanosecond)
		for len(l) < 20000 {
			t = e.Next(t)
			if t.IsZero() || t.Unix() > hi {
				break
			}
			l = append(l, t.Unix())
		}
		if len(l) >= 20000 {
			return fmt.Errorf("oracle list too long for %q", line)
		}
		v.fires = append(v.fires, l)
	}
	return nil
}

func cOptNs(p *int64) string {
	if p == nil {
		return "None"
	}
	return "(Some " + CZ(*p*nsPerSec) + ")"
}

func (v *jcVersion) coq() string {
	ex := make([]string, len(v.fires))
	for i, l := range v.fires {
		ex[i] = CListZ(l)
	}
	return CApp("mkJC", CZ(v.Key), CBool(v.active()), CList(ex), cOptNs(v.Nbf), cOptNs(v.Naf), cOptNs(v.Ls), cOptNs(v.Lu))
}

type cronOp struct {
	Kind     string     `json:"kind"`
	Now      int64      `json:"now,omitempty"`      // ns
	Readings []int64    `json:"readings,omitempty"` // ns, per Pop
	JC       *jcVersion `json:"jc,omitempty"`
	Changed  bool       `json:"changed,omitempty"`
	Key      int64      `json:"key,omitempty"`
	Name     string     `json:"name,omitempty"`
}

type cronObs struct {
	Reqs [][2]int64 `json:"reqs"` // (key, second) stably sorted by key
	Heap [][2]int64 `json:"heap"` // (key, priority) sorted by key, priority <= horizon
}

type cronCase struct {
	Cfg     cronCfg   `json:"cfg"`
	Horizon [2]int64  `json:"horizon"`
	Ops     []cronOp  `json:"ops"`
	Obs     []cronObs `json:"obs"`
}

// A JobConfig identifier of the generator is its name in the default namespace "ns", or
// "<namespace>/<name>" for another namespace (same bare names in two namespaces occur).
func splitNS(id string) (string, string) {
	if i := strings.Index(id, "/"); i >= 0 {
		return id[:i], id[i+1:]
	}
	return "ns", id
}
func fullKey(id string) string { ns, n := splitNS(id); return ns + "/" + n }
func nsOf(id string) string    { ns, _ := splitNS(id); return ns }
func bareOf(id string) string  { _, n := splitNS(id); return n }
func idOf(ns, name string) string {
	if ns == "ns" {
		return name
	}
	return ns + "/" + name
}

// ---- implementation driver ----

type recHandler struct {
	inner croncontroller.EnqueueHandler
	names map[string]int64
	reqs  [][2]int64
}

func (r *recHandler) EnqueueJobConfig(jc *execution.JobConfig, ts time.Time) error {
	r.reqs = append(r.reqs, [2]int64{r.names[idOf(jc.Namespace, jc.Name)], ts.Unix()})
	return r.inner.EnqueueJobConfig(jc, ts)
}

type cronImpl struct {
	sc     *SimContext
	cctx   *croncontroller.Context
	worker *croncontroller.CronWorker
	clk    *seqClock
	rec    *recHandler
	q      *SimQueue
	names  map[string]int64
}

func newCronImpl(cfg cronCfg) *cronImpl {
	im := &cronImpl{sc: NewSimContext(), clk: &seqClock{readings: []int64{0}}, names: map[string]int64{}}
	im.sc.SetConfig(configv1alpha1.CronExecutionConfigName, cfg.obj())
	croncontroller.Clock = im.clk
	return im
}

func (im *cronImpl) init(now int64) error {
	im.sc.informers.JobConfigs.handlers = nil
	im.cctx = croncontroller.NewContext(im.sc)
	im.q = NewSimQueue()
	im.cctx.VerifSetQueue(im.q)
	im.rec = &recHandler{inner: croncontroller.VerifNewEnqueueHandler(im.cctx), names: im.names}
	im.worker = croncontroller.NewCronWorker(im.cctx, im.rec)
	croncontroller.NewInformerWorker(im.cctx, croncontroller.NewUpdateHandler(im.cctx)).Init()
	// client-go replays the cache content as Add notifications to a new handler; they
	// are delivered before the controller proceeds (WaitForCacheSync).
	im.sc.informers.JobConfigs.DeliverAll()
	im.clk.set(now)
	return im.worker.Init()
}

func (im *cronImpl) heapView(hi int64) [][2]int64 {
	out := [][2]int64{}
	if im.worker == nil || im.worker.VerifSchedule() == nil {
		return out
	}
	names, prios, index := im.worker.VerifSchedule().VerifDump()
	for i, n := range names {
		if index[n] != i {
			panic(fmt.Sprintf("heap name index inconsistent: names[%d]=%s index=%d", i, n, index[n]))
		}
		if int64(prios[i]) <= hi {
			kns, kn := splitNS(n)
			out = append(out, [2]int64{im.names[idOf(kns, kn)], int64(prios[i])})
		}
	}
	sort.Slice(out, func(a, b int) bool { return out[a][0] < out[b][0] })
	return out
}

func (im *cronImpl) apply(o cronOp, hi int64) (cronObs, error) {
	obs := cronObs{Reqs: [][2]int64{}}
	switch o.Kind {
	case "init":
		if err := im.init(o.Now); err != nil {
			return obs, err
		}
	case "tick":
		im.rec.reqs = nil
		im.clk.set(append([]int64{o.Now}, o.Readings...)...)
		done := make(chan struct{})
		go func() { im.worker.Work(); close(done) }()
		select {
		case <-done:
		case <-time.After(3 * time.Second):
			return obs, fmt.Errorf("Work() did not return within 3s (livelock)")
		}
		obs.Reqs = append(obs.Reqs, im.rec.reqs...)
		sort.SliceStable(obs.Reqs, func(a, b int) bool { return obs.Reqs[a][0] < obs.Reqs[b][0] })
	case "create", "update":
		im.names[o.JC.Name] = o.JC.Key
		im.sc.informers.JobConfigs.Set(o.JC.obj())
	case "delete":
		im.sc.informers.JobConfigs.Remove(fullKey(o.Name))
	case "deliver":
		im.sc.informers.JobConfigs.Deliver(0)
	}
	obs.Heap = im.heapView(hi)
	return obs, nil
}

// ---- generator ----

// cronScripts are corpus cases that run first on every run.
var cronScripts = []string{"F1-create-while-running", "F2-delete-recreate"}

var cronExprPool = [][]string{
	// minute-scale
	{"* * * * *", "*/2 * * * *", "*/5 * * * *", "1-59/7 * * * *", "H/5 * * * *", "H/3 * * * *", "0,15,30,45 * * * *", "7,37 * * * *", "*/10 * * * * *", "0 */4 * * * * *"},
	// hour-scale
	{"0 * * * *", "H * * * *", "30 3,4,5 * * *", "0 4 * * *", "5 4 * * *", "H H * * *", "0 5 4 * * * 2021", "0 12 9 2 * 2021", "0 0 5 9 2 * 2021", "0 4 9 2 *", "59 3 * * *"},
	// second-scale
	{"* * * * * * *", "*/10 * * * * * *", "0/20 * * * * * *", "5,35 * * * * * *", "H/15 * * * * * *"},
}

type cronGen struct {
	p       *PRNG
	cfg     cronCfg
	t0      int64 // unix seconds, base
	density int   // 0 minute, 1 hour, 2 second
	lo, hi  int64
	tzs     []tzChoice
}

func (g *cronGen) genExprs() ([]string, bool) {
	pool := cronExprPool[g.density]
	if g.p.Chance(1, 5) {
		pool = cronExprPool[g.p.Intn(2)]
		if g.density == 2 {
			pool = cronExprPool[2]
		}
	}
	if g.p.Chance(1, 3) {
		n := 2 + g.p.Intn(2)
		l := make([]string, n)
		for i := range l {
			l[i] = Pick(g.p, pool)
			if g.p.Chance(1, 4) {
				l[i] = Pick(g.p, []string{"0 12 9 2 * 2021", "0 5 4 9 2 * 2021", "0 0 4 9 2 * 2021", "0 10 4 9 2 * 2021"}) // bounded (year field)
			}
		}
		return l, true
	}
	return []string{Pick(g.p, pool)}, g.p.Chance(1, 6)
}

// around returns a time on the lattice around x (seconds).
func (g *cronGen) around(x int64) *int64 {
	span := []int64{-3600, -600, -301, -300, -299, -61, -60, -59, -1, 0, 1, 59, 60, 61, 120, 299, 300, 301, 600, 1800}
	if g.density == 2 {
		span = []int64{-130, -121, -120, -119, -61, -60, -30, -10, -1, 0, 1, 5, 10, 30, 60, 119}
	}
	v := x + Pick(g.p, span)
	return &v
}

func (g *cronGen) genVersion(name string, key int64, uid string, now int64) *jcVersion {
	v := &jcVersion{Name: name, Key: key, UID: uid}
	v.HasSchedule = !g.p.Chance(1, 12)
	v.Disabled = g.p.Chance(1, 8)
	v.HasCron = !g.p.Chance(1, 12)
	v.Exprs, v.UseList = g.genExprs()
	v.Tz = Pick(g.p, g.tzs)
	if g.p.Chance(1, 4) {
		v.Nbf = g.around(now)
	}
	if g.p.Chance(1, 4) {
		v.Naf = g.around(now + 600)
	}
	if g.p.Chance(1, 2) {
		v.Ls = g.around(now - 60)
	}
	if g.p.Chance(1, 3) {
		v.Lu = g.around(now - 30)
	}
	return v
}

// cronStandbyCheck: a cron controller that has been constructed but not started (a standby
// replica under leader election) must not collect JobConfig events: whatever it buffers is
// replayed as a schedule change right after the catch-up heap is built at start, re-basing the
// JobConfig on the start time and dropping its missed schedule times (C04) - the real
// NewController is built on the simulated context and a schedule edit is delivered to it.
func cronStandbyCheck(res *Result) {
	sc := NewSimContext()
	st, err := activejobstore.NewStore(sc)
	if err != nil {
		panic(err)
	}
	sc.RegisterStore(st)
	rjc := &execution.JobConfig{ObjectMeta: metav1.ObjectMeta{Namespace: "ns", Name: "standby", UID: "uid-standby"}}
	rjc.Spec.Schedule = &execution.ScheduleSpec{Cron: &execution.CronSchedule{Expression: "0 * * * *"}}
	sc.informers.JobConfigs.Set(rjc)
	sc.informers.JobConfigs.DeliverAll()
	ctrl, err := croncontroller.NewController(sc, &configv1alpha1.Concurrency{Workers: 1})
	if err != nil {
		panic(err)
	}
	edited := rjc.DeepCopy()
	edited.Spec.Schedule.Cron.Expression = "*/5 * * * *"
	sc.informers.JobConfigs.Set(edited)
	sc.informers.JobConfigs.DeliverAll()
	res.Count("standby-check")
	if n := ctrl.VerifUpdatedConfigsLen(); n != 0 {
		res.Hits = append(res.Hits, MonitorHit{"C04", "C04/standby-controller-buffers-schedule-edits",
			fmt.Sprintf("a constructed but not yet started cron controller buffered %d schedule edit(s): at start they are flushed after the catch-up heap is built, the JobConfig is re-based on the start time and its missed schedule times are never requested", n),
			map[string]interface{}{"steps": "NewController; JobConfig schedule edited; event delivered; (Run not called)"}})
	}
}

func runCron(ctx *RunCtx) *Result {
	res := NewResult()
	cronStandbyCheck(res)
	cronStartupCheck(res)
	p := NewPRNG(ctx.Seed)
	tzs := tzChoices()
	var timeouts int
	for i := 0; i < ctx.N; i++ {
		c := p.Fork()
		script := ""
		if i < len(cronScripts) {
			script = cronScripts[i]
		}
		g := &cronGen{p: c, tzs: tzs}
		g.density = []int{0, 0, 0, 1, 1, 2}[c.Intn(6)]
		// config
		g.cfg = cronCfg{MaxDowntime: Pick(c, []int64{0, 0, 60, 120, 300, 600, -5})}
		if g.density == 2 {
			g.cfg.MaxDowntime = Pick(c, []int64{30, 60, 120})
		}
		if c.Chance(2, 3) {
			g.cfg.MaxMissed = pointer.Int64(Pick(c, []int64{0, 1, 2, 3, 5, 5, 10}))
		}
		switch c.Intn(4) {
		case 0:
			g.cfg.DefaultTz, g.cfg.DefaultLoc = nil, time.UTC
		case 1:
			g.cfg.DefaultTz, g.cfg.DefaultLoc = pointer.String(""), time.UTC
		case 2:
			g.cfg.DefaultTz, g.cfg.DefaultLoc = pointer.String("Asia/Tokyo"), mustLoc("Asia/Tokyo")
		case 3:
			g.cfg.DefaultTz, g.cfg.DefaultLoc = pointer.String("UTC-02:00"), time.FixedZone("x", -2*3600)
		}
		if c.Chance(1, 6) {
			g.cfg.HashFields = pointer.Bool(c.Bool())
		}
		g.t0 = 1612843200 - 120 + c.Range(0, 600) // around 2021-02-09 04:00:00 UTC
		thr := g.cfg.MaxDowntime
		if thr <= 0 {
			thr = 300
		}
		span := int64(7200)
		if g.density == 2 {
			span = 400
		}
		g.lo, g.hi = g.t0-thr-3700, g.t0+span+60
		if g.density == 2 {
			g.lo = g.t0 - thr - 140
		}

		cs := cronCase{Cfg: g.cfg, Horizon: [2]int64{g.lo, g.hi}}
		im := newCronImpl(g.cfg)
		live := map[string]*jcVersion{}
		var names []string
		nextKey := int64(1)
		uidn := 0
		newUID := func() string { uidn++; return fmt.Sprintf("uid-%d", uidn) }
		pre := []string{}
		vdefs := 0
		addOp := func(o cronOp) bool {
			if o.JC != nil {
				if err := o.JC.computeFires(g.cfg, g.lo, g.hi); err != nil {
					return false // expression not parseable under this config: skip the op
				}
			}
			obs, err := im.apply(o, g.hi)
			if err != nil {
				if strings.Contains(err.Error(), "livelock") {
					timeouts++
				}
				sig := "C01/work-error"
				if strings.Contains(err.Error(), "livelock") {
					sig = "C01/work-livelock-clock-advances"
				}
				res.Hits = append(res.Hits, MonitorHit{"C01", sig, err.Error(), cs})
				return false
			}
			cs.Ops = append(cs.Ops, o)
			cs.Obs = append(cs.Obs, obs)
			return true
		}
		if script != "" {
			// scripted corpus case (known findings are reproduced from these)
			g.density = 0
			g.cfg = cronCfg{MaxDowntime: 300, DefaultLoc: time.UTC}
			g.t0 = 1612843200
			g.lo, g.hi = g.t0-4000, g.t0+7260
			cs = cronCase{Cfg: g.cfg, Horizon: [2]int64{g.lo, g.hi}}
			im = newCronImpl(g.cfg)
			mk := func(name string, key int64, uid string, expr string) *jcVersion {
				return &jcVersion{Name: name, Key: key, UID: uid, HasSchedule: true, HasCron: true, Exprs: []string{expr}, Tz: tzChoice{"UTC", time.UTC}}
			}
			t := g.t0 * nsPerSec
			switch script {
			case "F1-create-while-running":
				addOp(cronOp{Kind: "create", JC: mk("a", 1, "u1", "* * * * *")})
				addOp(cronOp{Kind: "init", Now: t + 10*nsPerSec})
				addOp(cronOp{Kind: "tick", Now: t + 11*nsPerSec})
				addOp(cronOp{Kind: "create", JC: mk("b", 2, "u2", "* * * * *")})
				addOp(cronOp{Kind: "deliver"})
				addOp(cronOp{Kind: "tick", Now: t + 61*nsPerSec})
				addOp(cronOp{Kind: "tick", Now: t + 121*nsPerSec})
			case "F2-delete-recreate":
				addOp(cronOp{Kind: "create", JC: mk("a", 1, "u1", "5 * * * *")})
				addOp(cronOp{Kind: "init", Now: t + 10*nsPerSec})
				addOp(cronOp{Kind: "tick", Now: t + 11*nsPerSec})
				addOp(cronOp{Kind: "delete", Name: "a", Key: 1})
				addOp(cronOp{Kind: "deliver"})
				addOp(cronOp{Kind: "create", JC: mk("a", 1, "u2", "40 * * * *")})
				addOp(cronOp{Kind: "deliver"})
				addOp(cronOp{Kind: "tick", Now: t + 12*nsPerSec})
				addOp(cronOp{Kind: "tick", Now: t + 301*nsPerSec})
				addOp(cronOp{Kind: "tick", Now: t + 2401*nsPerSec})
			}
			res.Count("scripted")
			goto emit
		}
		{
			// population before start
			npop := 1 + c.Intn(5)
			if c.Chance(1, 10) {
				npop = 10 + c.Intn(30)
			}
			now := g.t0*nsPerSec + Pick(c, []int64{0, 0, 1, 500000000, 999999999})
			for j := 0; j < npop; j++ {
				name := fmt.Sprintf("jc%d", nextKey)
				if c.Chance(1, 5) {
					name = fmt.Sprintf("jc.%d-x", nextKey)
				}
				if len(names) > 0 && c.Chance(1, 4) {
					// the same bare name as an existing JobConfig, in another namespace
					if cand := "ns2/" + bareOf(Pick(c, names)); live[cand] == nil {
						name = cand
					}
				}
				v := g.genVersion(name, nextKey, newUID(), g.t0)
				nextKey++
				if addOp(cronOp{Kind: "create", JC: v}) {
					live[name] = v
					names = append(names, name)
				}
			}
			addOp(cronOp{Kind: "init", Now: now})
			nops := 10 + c.Intn(30)
			if g.density == 2 {
				nops = 8 + c.Intn(12)
			}
			for j := 0; j < nops; j++ {
				switch k := c.Intn(20); {
				case k < 11: // tick
					adv := Pick(c, []int64{1, 1, 1, 1, 2, 3, 10, 59, 60, 61, 300, 900})
					if g.density == 1 && c.Chance(1, 3) {
						adv = Pick(c, []int64{1800, 3600, 3000})
					}
					if g.density == 2 {
						adv = Pick(c, []int64{1, 1, 1, 1, 2, 3, 5, 7, 12, 30})
					}
					if (now/nsPerSec)+adv > g.hi-30 {
						adv = 0
					}
					now = ((now/nsPerSec)+adv)*nsPerSec + Pick(c, []int64{0, 0, 1, 250000000, 999999999})
					res.Count("tick")
					top := cronOp{Kind: "tick", Now: now}
					if c.Chance(1, 6) {
						// the controller clock keeps running while Work() executes
						step := Pick(c, []int64{1, 1000000, 400000000, 1000000000})
						for r := int64(1); r <= 60; r++ {
							top.Readings = append(top.Readings, now+r*step)
						}
						res.Count("tick-clock-advances-during-work")
					}
					addOp(top)
				case k < 14: // update
					if len(names) == 0 {
						continue
					}
					name := Pick(c, names)
					old, ok := live[name]
					if !ok {
						continue
					}
					var nv *jcVersion
					switch c.Intn(6) {
					case 0: // status-only change
						cp := *old
						cp.rv = ""
						cp.Ls = g.around(now / nsPerSec)
						nv = &cp
						res.Count("update-status")
					case 1: // toggle disabled
						cp := *old
						cp.rv = ""
						cp.Disabled = !cp.Disabled
						nv = &cp
						res.Count("update-toggle")
					case 2: // webhook-like: new schedule with lastUpdated = now
						nv = g.genVersion(name, old.Key, old.UID, now/nsPerSec)
						s := now / nsPerSec
						nv.Lu = &s
						nv.Ls = old.Ls
						res.Count("update-schedule-stamped")
					default:
						nv = g.genVersion(name, old.Key, old.UID, now/nsPerSec)
						nv.Ls = old.Ls
						res.Count("update-schedule")
					}
					if addOp(cronOp{Kind: "update", JC: nv, Changed: scheduleChanged(old, nv)}) {
						live[name] = nv
					}
				case k < 15: // delete
					if len(names) == 0 {
						continue
					}
					name := Pick(c, names)
					if v, ok := live[name]; ok {
						res.Count("delete")
						addOp(cronOp{Kind: "delete", Name: name, Key: v.Key})
						delete(live, name)
					}
				case k < 16: // create (new or re-create)
					name := fmt.Sprintf("jc%d", nextKey)
					key := nextKey
					if c.Chance(1, 2) && len(names) > 0 {
						name = Pick(c, names)
						if _, ok := live[name]; ok {
							continue
						}
						key = im.names[name]
						res.Count("recreate")
					} else {
						nextKey++
						names = append(names, name)
						res.Count("create-late")
					}
					v := g.genVersion(name, key, newUID(), now/nsPerSec)
					if addOp(cronOp{Kind: "create", JC: v}) {
						live[name] = v
					}
				case k < 19:
					res.Count("deliver")
					addOp(cronOp{Kind: "deliver"})
				default: // restart
					adv := Pick(c, []int64{0, 1, 30, 299, 300, 301, 900})
					if g.density == 2 {
						adv = Pick(c, []int64{0, 1, 29, 30, 31, 59, 60, 61})
					}
					if (now/nsPerSec)+adv > g.hi-30 {
						adv = 0
					}
					now = ((now/nsPerSec)+adv)*nsPerSec + Pick(c, []int64{0, 1, 999999999})
					res.Count("restart")
					addOp(cronOp{Kind: "init", Now: now})
				}
			}
		}
	emit:
		// Coq term
		var ops, obs []string
		for _, o := range cs.Ops {
			switch o.Kind {
			case "init":
				ops = append(ops, CApp("OInit", CZ(g.cfg.MaxDowntime), CZ(o.Now)))
			case "tick":
				ops = append(ops, CApp("OTick", COptZ(g.cfg.MaxMissed), CZ(o.Now)))
			case "create", "update":
				vdefs++
				vn := fmt.Sprintf("jv_%d_%d", i, vdefs)
				pre = append(pre, fmt.Sprintf("Definition %s := %s.", vn, o.JC.coq()))
				if o.Kind == "create" {
					ops = append(ops, CApp("OCreate", vn))
				} else {
					ops = append(ops, CApp("OUpdate", vn, CBool(o.Changed)))
				}
			case "delete":
				ops = append(ops, CApp("ODelete", CZ(o.Key)))
			case "deliver":
				ops = append(ops, "ODeliver")
			}
		}
		nreq := 0
		for _, ob := range cs.Obs {
			nreq += len(ob.Reqs)
			obs = append(obs, CPair(cPairsZ(ob.Reqs), cPairsZ(ob.Heap)))
		}
		res.Distribution[fmt.Sprintf("density-%d", g.density)]++
		res.Distribution["requests"] += nreq
		term := CApp("mkCronCase", CZ(g.hi), CList(ops), CList(obs))
		res.AddPre(strings.Join(pre, "\n"), term, cs, fmt.Sprintf("%d|%d|%v", ctx.Seed, i, nreq), nreq > 0)
		cronMonitor(res, &cs)
	}
	res.Extra["livelock_timeouts"] = timeouts
	return res
}

func cPairsZ(ps [][2]int64) string {
	it := make([]string, len(ps))
	for i, p := range ps {
		it[i] = CPair(CZ(p[0]), CZ(p[1]))
	}
	return CList(it)
}

// ---- monitor: the property itself, judged on the implementation's requests ----
//
// The monitor is a direct, independent restatement of C01/C03/C04 as an expected
// request list per JobConfig and tick; it never consults the model.  Per key it keeps
// the API version the heap is based on, the number of schedule changes still in
// flight (event not yet delivered, or delivered and waiting for the next tick), and
// the "basis": the instant after which every match inside the window is due.
//   start/restart at now0:  basis = max(lastScheduled, now0 - maxDowntime) if ever
//                           scheduled else now0; then max with lastUpdated and
//                           notBefore - 1ns                                   (C04)
//   tick at now:            expected = the first maxMissed matches in (basis, now]
//                           inside [notBefore, notAfter]; basis := now         (C01)
//   schedule change:        takes effect at the tick that processes its flush;
//                           basis := that tick's clock (nothing back-dated)    (C03)
//   create while running:   basis := clock of the latest tick                  (C03)
//   disable / delete:       nothing expected                                   (C03)
// While a change of a key is in flight only the universal checks (never early) apply
// to it: the property does not say which of the two schedules governs that instant.

func inList(l []int64, x int64) bool {
	i := sort.Search(len(l), func(i int) bool { return l[i] >= x })
	return i < len(l) && l[i] == x
}

func (v *jcVersion) matches(t int64) bool {
	for _, l := range v.fires {
		if inList(l, t) {
			return true
		}
	}
	return false
}

func (v *jcVersion) inWindow(t int64) bool {
	return (v.Nbf == nil || t >= *v.Nbf) && (v.Naf == nil || t <= *v.Naf)
}

// due lists the matches of v in (from, to] (ns bounds) inside the window, ascending.
func (v *jcVersion) due(from, to int64) []int64 {
	seen := map[int64]bool{}
	var out []int64
	for _, l := range v.fires {
		i := sort.Search(len(l), func(i int) bool { return l[i]*nsPerSec > from })
		for ; i < len(l) && l[i]*nsPerSec <= to; i++ {
			if !seen[l[i]] && v.inWindow(l[i]) {
				seen[l[i]] = true
				out = append(out, l[i])
			}
		}
	}
	sort.Slice(out, func(a, b int) bool { return out[a] < out[b] })
	return out
}

func maxI(a, b int64) int64 {
	if a > b {
		return a
	}
	return b
}

type cronKeyState struct {
	v        *jcVersion // version the schedule is based on (nil: not scheduled)
	basis    int64
	inflight int
	ticks    int    // ticks judged since the basis was set
	how      string // how the key got its current basis: "start", "flush", "create", "recreate"
}

func cronMonitor(res *Result, cs *cronCase) {
	maxMissed := int64(5)
	if cs.Cfg.MaxMissed != nil {
		maxMissed = *cs.Cfg.MaxMissed
	}
	thr := cs.Cfg.MaxDowntime
	if thr <= 0 {
		thr = 300
	}
	thr *= nsPerSec
	api := map[int64]*jcVersion{}
	st := map[int64]*cronKeyState{}
	type ev struct {
		key     int64
		v       *jcVersion // nil for delete
		changed bool
	}
	var undelivered, inchan []ev
	everDeleted := map[int64]bool{}
	started := false
	var lastClock int64
	hit := func(prop, sig, what string) {
		res.Hits = append(res.Hits, MonitorHit{prop, sig, what, cs})
	}
	rebase := func(k int64, v *jcVersion, basis int64, how string) {
		s := st[k]
		if s == nil {
			s = &cronKeyState{}
			st[k] = s
		}
		s.v, s.basis, s.how, s.ticks = v, basis, how, 0
	}
	for i, o := range cs.Ops {
		switch o.Kind {
		case "create":
			api[o.JC.Key] = o.JC
			if started {
				how := "create"
				if everDeleted[o.JC.Key] {
					how = "recreate"
				}
				undelivered = append(undelivered, ev{key: -1})
				s := st[o.JC.Key]
				infl := 0
				if s != nil {
					infl = s.inflight
				}
				rebase(o.JC.Key, o.JC, lastClock, how)
				st[o.JC.Key].inflight = infl
			}
		case "update":
			api[o.JC.Key] = o.JC
			if started {
				undelivered = append(undelivered, ev{key: o.JC.Key, v: o.JC, changed: o.Changed})
				if o.Changed {
					if st[o.JC.Key] == nil {
						st[o.JC.Key] = &cronKeyState{}
					}
					st[o.JC.Key].inflight++
				} else if s := st[o.JC.Key]; s != nil && s.inflight == 0 {
					// status-only update: the heap is untouched, but later bumps read the new object
					s.v = o.JC
				}
			}
		case "delete":
			delete(api, o.Key)
			everDeleted[o.Key] = true
			if started {
				undelivered = append(undelivered, ev{key: o.Key, v: nil, changed: true})
				if st[o.Key] == nil {
					st[o.Key] = &cronKeyState{}
				}
				st[o.Key].inflight++
				st[o.Key].v = nil // deleted: nothing is expected from now on
			}
		case "deliver":
			if len(undelivered) > 0 {
				e := undelivered[0]
				undelivered = undelivered[1:]
				if e.key >= 0 && e.changed {
					inchan = append(inchan, e)
				}
			}
		case "init":
			started = true
			lastClock = o.Now
			undelivered, inchan = nil, nil
			st = map[int64]*cronKeyState{}
			for k, v := range api {
				var ref int64
				if v.Ls != nil {
					ref = maxI(*v.Ls*nsPerSec, o.Now-thr)
				} else {
					ref = o.Now
				}
				if v.Lu != nil {
					ref = maxI(ref, *v.Lu*nsPerSec)
				}
				if v.Nbf != nil {
					ref = maxI(ref, *v.Nbf*nsPerSec-1)
				}
				rebase(k, v, ref, "start")
			}
		case "tick":
			now := o.Now
			lastClock = now
			// flushes processed at the top of this tick
			for _, e := range inchan {
				s := st[e.key]
				s.inflight--
				if e.v != nil {
					if cur, ok := api[e.key]; ok && cur.UID == e.v.UID && s.inflight == 0 {
						rebase(e.key, cur, now, "flush")
					}
				}
			}
			inchan = nil
			got := map[int64][]int64{}
			for _, r := range cs.Obs[i].Reqs {
				got[r[0]] = append(got[r[0]], r[1])
				if r[1]*nsPerSec > now {
					hit("C01", "C01/early", fmt.Sprintf("op %d: key %d requested for %d at clock %d ns", i, r[0], r[1], now))
				}
			}
			keys := map[int64]bool{}
			for k := range st {
				keys[k] = true
			}
			for k := range got {
				keys[k] = true
			}
			for k := range keys {
				s := st[k]
				if s == nil {
					hit("C03", "C03/request-for-unknown", fmt.Sprintf("op %d: key %d requested %v but no such JobConfig exists", i, k, got[k]))
					continue
				}
				if s.inflight > 0 {
					continue
				}
				var want []int64
				if s.v != nil && api[k] != nil && s.v.active() {
					want = s.v.due(s.basis, now)
					if int64(len(want)) > maxMissed {
						if maxMissed < 0 {
							want = nil
						} else {
							want = want[:maxMissed]
						}
					}
				}
				if !eqInt64s(want, got[k]) {
					prop, sig := classifyCron(s, api[k], want, got[k], everDeleted[k])
					hit(prop, sig, fmt.Sprintf("op %d (tick at %d): key %d (%s at basis %d): expected requests %v, implementation requested %v", i, now, k, s.how, s.basis, want, got[k]))
				}
				if now > s.basis {
					s.basis = now
					s.ticks++ // the start reference has been passed: from here on it is steady state
				}
			}
		}
	}
}

func eqInt64s(a, b []int64) bool {
	if len(a) != len(b) {
		return false
	}
	for i := range a {
		if a[i] != b[i] {
			return false
		}
	}
	return true
}

// classifyCron names the causal situation of a deviation (the signature used by the
// known-findings file).
func classifyCron(s *cronKeyState, cur *jcVersion, want, got []int64, wasDeleted bool) (string, string) {
	extra := []int64{}
	ws := map[int64]bool{}
	for _, w := range want {
		ws[w] = true
	}
	for _, g := range got {
		if !ws[g] {
			extra = append(extra, g)
		}
	}
	switch s.how {
	case "create":
		if len(got) == 0 {
			return "C03", "C03/created-while-running-never-scheduled"
		}
		return "C03", "C03/created-while-running-wrong-requests"
	case "recreate":
		if len(extra) > 0 {
			return "C03", "C03/recreated-fires-stale-entry"
		}
		return "C03", "C03/recreated-never-scheduled"
	case "flush":
		if cur != nil && len(extra) > 0 {
			allBefore := cur.Nbf != nil
			for _, e := range extra {
				if !(cur.Nbf != nil && e < *cur.Nbf && cur.matches(e)) {
					allBefore = false
				}
			}
			if allBefore {
				return "C03", "C03/fires-before-notBefore-after-update"
			}
		}
		if len(extra) > 0 {
			return "C03", "C03/unexpected-request-after-change"
		}
		return "C03", "C03/missed-after-change"
	default: // start
		if s.ticks == 0 {
			// judged against the start reference itself: the catch-up rule of C04
			if len(extra) > 0 {
				return "C04", "C04/first-tick-unexpected-request"
			}
			return "C04", "C04/first-tick-missed"
		}
		if len(extra) > 0 {
			return "C01", "C01/unexpected-request"
		}
		return "C01", "C01/missed"
	}
}
