package main

import (
	"context"
	"encoding/json"
	"fmt"
	"strings"
	"time"

	admissionv1 "k8s.io/api/admission/v1"
	corev1 "k8s.io/api/core/v1"
	metav1 "k8s.io/apimachinery/pkg/apis/meta/v1"
	"k8s.io/apimachinery/pkg/runtime"
	"k8s.io/apimachinery/pkg/types"
	"k8s.io/apimachinery/pkg/util/validation/field"
	clocktesting "k8s.io/utils/clock/testing"
	"k8s.io/utils/pointer"

	configv1alpha1 "github.com/furiko-io/furiko/apis/config/v1alpha1"
	execution "github.com/furiko-io/furiko/apis/execution/v1alpha1"
	"github.com/furiko-io/furiko/pkg/core/tzutils"
	"github.com/furiko-io/furiko/pkg/execution/mutation"
	"github.com/furiko-io/furiko/pkg/execution/taskexecutor/podtaskexecutor"
	"github.com/furiko-io/furiko/pkg/execution/tasks"
	"github.com/furiko-io/furiko/pkg/execution/util/cron"
	"github.com/furiko-io/furiko/pkg/execution/util/cronschedule"
	"github.com/furiko-io/furiko/pkg/execution/util/jobconfig"
	"github.com/furiko-io/furiko/pkg/execution/util/parallel"
	"github.com/furiko-io/furiko/pkg/execution/validation"
	"github.com/furiko-io/furiko/pkg/execution/webhooks/jobconfigvalidatingwebhook"
	"github.com/furiko-io/furiko/pkg/execution/webhooks/jobvalidatingwebhook"
)

// Family "validate" (C17): Validator.ValidateJobConfig / ValidateJob / ValidateJobUpdate against
// Admission/Validate.v, and - for every accepted JobConfig - the consumers: cronschedule.New
// and Bump, NewJobFromJobConfig, Mutator + Validator on the produced Job, NewPod per index.

func init() {
	register(&Family{Name: "validate", Run: runValidate, CheckModule: "Cases.ValidateCheck", CaseOK: "val_ok"})
}

var valExprPool = []string{
	"0 10 * * *", "*/5 * * * *", "H * * * *", "H/15 * * * *", "0 0 1 1 *", "H H * * *", "@daily", "0 0 10 * * ? *", "H 0 10 * * *",
	// whether these parse depends on the hash id (finding F18)
	"H(0-0)/2 * * * *", "H(0-1)/7 * * * *", "H(0-2)/5 H * * *", "0 H(0-0)/3 * * *",
	"0 0/5 * * * ?", "H(0-30) * * * *", "* * * * * * *",
	"", " ", "61 * * * *", "bad", "* * *", "H(70-80) * * * *", "0 10 * * 8", "*/0 * * * *", "0 10 * * * * * *",
}
var tzPool = []string{"", "UTC", "Asia/Singapore", "UTC+08:00", "GMT-5", "+0800", "Mars/Base", "UTC+25", "Local", "utc"}

func genPodTemplate(c *PRNG) *execution.PodTemplateSpec {
	p := &execution.PodTemplateSpec{}
	switch c.Intn(8) {
	case 0:
		// no containers
	case 1:
		p.Spec.Containers = []corev1.Container{{Name: "c"}} // no image
	case 2:
		p.Spec.Containers = []corev1.Container{{Name: "Bad_Name", Image: "img"}}
	default:
		p.Spec.Containers = []corev1.Container{{Name: "c", Image: "img", Args: []string{"${option.a}"}}}
	}
	p.Spec.RestartPolicy = Pick(c, []corev1.RestartPolicy{"", "", corev1.RestartPolicyNever, corev1.RestartPolicyOnFailure, corev1.RestartPolicyAlways})
	return p
}

var rpAll = []corev1.RestartPolicy{"", corev1.RestartPolicyNever, corev1.RestartPolicyOnFailure, corev1.RestartPolicyAlways}

func podTerm(p *execution.PodTemplateSpec) string {
	if p == nil {
		return "None"
	}
	var tbl []string
	for _, rp := range rpAll {
		q := &corev1.PodTemplateSpec{ObjectMeta: p.ObjectMeta, Spec: *p.Spec.DeepCopy()}
		q.Spec.RestartPolicy = rp
		ok := len(validation.ValidatePodTemplateSpec(q, field.NewPath("x"))) == 0
		tbl = append(tbl, CPair(CStr(string(rp)), CBool(ok)))
	}
	return "(Some " + CPair(CStr(string(p.Spec.RestartPolicy)), CList(tbl)) + ")"
}

func genJobTemplate(c *PRNG, mostlyValid bool) execution.JobTemplate {
	var t execution.JobTemplate
	pickOpt := func(vals []int64, pNil int) *int64 {
		if c.Chance(pNil, 10) {
			return nil
		}
		return pointer.Int64(Pick(c, vals))
	}
	if mostlyValid {
		t.MaxAttempts = pickOpt([]int64{1, 3, 50}, 5)
		t.RetryDelaySeconds = pickOpt([]int64{0, 5}, 6)
		t.TaskPendingTimeoutSeconds = pickOpt([]int64{0, 900}, 6)
	} else {
		t.MaxAttempts = pickOpt([]int64{1, 3, 50, 0, 51, -1}, 3)
		t.RetryDelaySeconds = pickOpt([]int64{0, 5, -1}, 4)
		t.TaskPendingTimeoutSeconds = pickOpt([]int64{0, 900, -5}, 4)
	}
	if c.Chance(3, 10) {
		s := genParSpec(c)
		if mostlyValid {
			s = parSpec{Count: pointer.Int64(int64(1 + c.Intn(3)))}
			if c.Bool() {
				s = parSpec{Matrix: map[string][]string{"os": {"linux", "mac"}, "py": {"3.8"}}}
			}
		}
		t.Parallelism = s.obj()
		t.Parallelism.CompletionStrategy = Pick(c, []execution.ParallelCompletionStrategy{"", execution.AllSuccessful, execution.AnySuccessful, "Weird"})
		if mostlyValid && t.Parallelism.CompletionStrategy == "Weird" {
			t.Parallelism.CompletionStrategy = ""
		}
	}
	if !c.Chance(1, 15) {
		t.TaskTemplate.Pod = genPodTemplate(c)
		if mostlyValid {
			t.TaskTemplate.Pod.Spec.Containers = []corev1.Container{{Name: "c", Image: "img", Args: []string{"${option.a}", "${task.index_num}"}}}
			if t.TaskTemplate.Pod.Spec.RestartPolicy == corev1.RestartPolicyAlways {
				t.TaskTemplate.Pod.Spec.RestartPolicy = corev1.RestartPolicyNever
			}
		}
	}
	return t
}

func parTermOf(p *execution.ParallelismSpec) string {
	if p == nil {
		return "None"
	}
	s := parSpec{Count: p.WithCount, Keys: p.WithKeys, Matrix: p.WithMatrix}
	keysOK := true
	for k := range p.WithMatrix {
		if !matrixKeyRe.MatchString(k) {
			keysOK = false
		}
	}
	return "(Some " + CPair(CPair(s.coq(), CBool(keysOK)), CStr(string(p.CompletionStrategy))) + ")"
}

func tmplTerm(t *execution.JobTemplate) string {
	return CApp("mkJT", COptZ(t.MaxAttempts), COptZ(t.RetryDelaySeconds), COptZ(t.TaskPendingTimeoutSeconds), parTermOf(t.Parallelism), podTerm(t.TaskTemplate.Pod))
}

func makeOptionValid(c *PRNG, o *execution.Option) {
	switch o.Type {
	case execution.OptionTypeBool:
		o.Required = false
		if !o.Bool.Format.IsValid() {
			o.Bool.Format = Pick(c, []execution.BoolOptionFormat{"", execution.BoolOptionFormatYesNo}) // "" is defaulted by the mutator
		}
	case execution.OptionTypeSelect:
		o.Select.Values = []string{"dev", "prod"}
		o.Select.Default = Pick(c, []string{"", "dev", "prod"})
	case execution.OptionTypeMulti:
		o.Multi.Values = []string{"a", "b", "c"}
		o.Multi.Default = Pick(c, [][]string{nil, {"a"}, {"b", "c"}})
	}
}

type valCronCfg struct {
	Format      string  `json:"format"`
	HashNames   *bool   `json:"hashNames"`
	HashSeconds *bool   `json:"hashSeconds"`
	HashFields  *bool   `json:"hashFields"`
	DefaultTZ   *string `json:"defaultTZ"`
}

func runValidate(ctx *RunCtx) *Result {
	res := NewResult()
	p := NewPRNG(ctx.Seed)
	for i := 0; i < ctx.N; i++ {
		c := p.Fork()
		switch k := c.Intn(10); {
		case k < 6:
			valJobConfigCase(c, res)
		case k < 8:
			valJobCase(c, res)
		default:
			valUpdateCase(c, res)
		}
	}
	return res
}

func valJobConfigCase(c *PRNG, res *Result) {
	sc := NewSimContext()
	js := map[string]interface{}{}
	hit := func(sig, what string) { res.Hits = append(res.Hits, MonitorHit{"C17", sig, what, js}) }
	// cron dynamic configuration
	var cc valCronCfg
	cc.Format = Pick(c, []string{"standard", "standard", "quartz", ""})
	if c.Chance(1, 3) {
		cc.HashNames = pointer.Bool(c.Bool())
	}
	if c.Chance(1, 3) {
		cc.HashSeconds = pointer.Bool(c.Bool())
	}
	if c.Chance(1, 3) {
		cc.HashFields = pointer.Bool(c.Bool())
	}
	if c.Chance(1, 3) {
		cc.DefaultTZ = pointer.String(Pick(c, []string{"Asia/Singapore", "", "UTC-03:30"}))
	}
	sc.SetConfig(configv1alpha1.CronExecutionConfigName, &configv1alpha1.CronExecutionConfig{CronFormat: cc.Format, CronHashNames: cc.HashNames,
		CronHashSecondsByDefault: cc.HashSeconds, CronHashFields: cc.HashFields, DefaultTimezone: cc.DefaultTZ})
	cronCfg, err := sc.Configs().Cron()
	if err != nil {
		panic(err)
	}
	mostlyValid := c.Chance(2, 3)
	// the JobConfig
	name := Pick(c, []string{"jc", "nightly-report", "a.b", strings.Repeat("n", 49), strings.Repeat("n", 50), "x1"})
	if mostlyValid && len(name) > 49 {
		name = "jc"
	}
	rjc := &execution.JobConfig{ObjectMeta: metav1.ObjectMeta{Namespace: "ns", Name: name, UID: "jc-uid"}}
	rjc.Spec.Concurrency.Policy = Pick(c, []execution.ConcurrencyPolicy{execution.ConcurrencyPolicyAllow, execution.ConcurrencyPolicyForbid, execution.ConcurrencyPolicyEnqueue, "", "Weird"})
	if mostlyValid && !rjc.Spec.Concurrency.Policy.IsValid() {
		rjc.Spec.Concurrency.Policy = execution.ConcurrencyPolicyForbid
	}
	if c.Chance(1, 3) {
		rjc.Spec.Concurrency.MaxConcurrency = pointer.Int64(Pick(c, []int64{1, 2, 0, -1}))
		if mostlyValid {
			rjc.Spec.Concurrency.MaxConcurrency = pointer.Int64(2)
			if rjc.Spec.Concurrency.Policy == execution.ConcurrencyPolicyAllow {
				rjc.Spec.Concurrency.MaxConcurrency = nil
			}
		}
	}
	var exprs []string
	if !c.Chance(1, 5) {
		s := &execution.ScheduleSpec{Disabled: c.Chance(1, 5)}
		if !c.Chance(1, 12) {
			s.Cron = &execution.CronSchedule{}
			pool := valExprPool
			if mostlyValid {
				pool = valExprPool[:13]
			}
			switch c.Intn(6) {
			case 0, 1, 2:
				s.Cron.Expression = Pick(c, pool)
			case 3, 4:
				for k := 0; k < 1+c.Intn(3); k++ {
					s.Cron.Expressions = append(s.Cron.Expressions, Pick(c, pool))
				}
				if c.Chance(1, 6) {
					s.Cron.Expressions = append(s.Cron.Expressions, Pick(c, []string{"", " "}))
				}
			case 5:
				if !mostlyValid {
					s.Cron.Expression = Pick(c, pool)
					s.Cron.Expressions = []string{Pick(c, pool)}
				} else {
					s.Cron.Expression = "0 * * * *"
				}
			}
			s.Cron.Timezone = Pick(c, tzPool)
			if mostlyValid {
				s.Cron.Timezone = Pick(c, tzPool[:5])
			}
			exprs = append(append(exprs, s.Cron.Expression), s.Cron.Expressions...)
		}
		rjc.Spec.Schedule = s
	}
	// options
	optNames := []string{"a", "b", "long_name", "x.y", "bad name", "", "a"}
	var extras []bool
	if c.Chance(3, 5) {
		rjc.Spec.Option = &execution.OptionSpec{}
		for k := 0; k < 1+c.Intn(3); k++ {
			nm := optNames[k]
			if !mostlyValid && c.Chance(1, 6) {
				nm = Pick(c, optNames)
			}
			o, _ := genOption(c, nm)
			if mostlyValid || c.Chance(1, 2) {
				makeOptionValid(c, &o)
			}
			extra := false
			if !mostlyValid && c.Chance(1, 10) {
				if o.Type != execution.OptionTypeString {
					o.String = &execution.StringOptionConfig{Default: "x"}
				} else {
					o.Date = &execution.DateOptionConfig{}
				}
				extra = true
			}
			extras = append(extras, extra)
			rjc.Spec.Option.Options = append(rjc.Spec.Option.Options, o)
		}
	}
	rjc.Spec.Template.Spec = genJobTemplate(c, mostlyValid)
	// template metadata, also with furiko's own reserved keys in it (pasted from a Job's YAML):
	// JobConfig admission does not look at it, so the Job built from it must still be valid
	if c.Chance(1, 3) {
		rjc.Spec.Template.Labels = Pick(c, []map[string]string{{"team": "t"}, {"team": "t", jobconfig.LabelKeyJobConfigUID: "uid-of-another-jobconfig"}, {jobconfig.LabelKeyJobConfigUID: "stale"}})
	}
	if c.Chance(1, 3) {
		rjc.Spec.Template.Annotations = Pick(c, []map[string]string{{"doc": "d"}, {"doc": "d", jobconfig.AnnotationKeyScheduleTime: "42"}})
	}
	js["jobconfig"], js["cron_config"] = rjc, cc

	// admission: mutate, then validate (the webhooks' order)
	mut := mutation.NewMutator(sc)
	val := validation.NewValidator(sc)
	mres := mut.MutateCreateJobConfig(rjc)
	mres.Merge(mut.MutateJobConfig(rjc))
	errs := val.ValidateJobConfig(rjc)
	errs = append(errs, val.ValidateJobConfigCreate(rjc)...)
	accepted := len(mres.Errors) == 0 && len(errs) == 0
	js["errors"] = fmt.Sprint(errs)
	// the admission entry point itself decides as the rules do on the object sent
	if raw, err := json.Marshal(rjc); err == nil {
		hook, _ := jobconfigvalidatingwebhook.NewWebhook(sc)
		resp, err := hook.Handle(context.Background(), &admissionv1.AdmissionRequest{Kind: gvkOf("JobConfig"), Operation: admissionv1.Create, Object: runtime.RawExtension{Raw: raw}})
		if err != nil {
			res.Hits = append(res.Hits, MonitorHit{"C17", "C17/webhook-error-on-create", fmt.Sprintf("the JobConfig validating webhook failed on a well-formed create: %v", err), js})
		} else if resp.Allowed != (len(errs) == 0) {
			res.Hits = append(res.Hits, MonitorHit{"C17", "C17/webhook-decision-differs-from-rules", fmt.Sprintf("the JobConfig validating webhook allowed=%v; the rules on the same object: %v", resp.Allowed, errs), js})
		}
	}

	// the consumers
	key := "ns/" + rjc.Name
	now := time.Unix(1700000000, 0)
	sched, lerr := cronschedule.New([]*execution.JobConfig{rjc}, cronschedule.WithConfigLoader(sc.Configs()), cronschedule.WithClock(clocktesting.NewFakeClock(now)))
	if lerr == nil {
		_, lerr = sched.Bump(rjc, now)
		if lerr != nil && strings.Contains(lerr.Error(), "is not after") {
			lerr = nil
		}
	}
	loads := lerr == nil
	_, derr := jobconfig.NewJobFromJobConfig(rjc, execution.JobTypeScheduled, now)
	// NewJobFromJobConfig fails only when defaults cannot be rendered; an unknown option type
	// is not generated
	defaultsOK := derr == nil

	// oracle tables
	parser := cron.NewParserFromConfig(cronCfg)
	var ptbl []string
	seenE := map[string]bool{}
	for _, e := range exprs {
		if seenE[e] {
			continue
		}
		seenE[e] = true
		for _, h := range []string{"", key} {
			_, perr := parser.Parse(e, h)
			ptbl = append(ptbl, CPair(CPair(CStr(h), CStr(e)), CBool(perr == nil)))
		}
		// (whether an expression parses can depend on the hash id - "H(0-0)/2": finding F18,
		// repaired - so validation tries the JobConfig's own key too; the tables carry both)
		if _, e1 := parser.Parse(e, ""); e1 == nil {
			if _, e2 := parser.Parse(e, key); e2 != nil {
				res.Count("expression-valid-only-for-some-hash-ids")
			}
		}
	}
	dtz := "UTC"
	if cronCfg.DefaultTimezone != nil && *cronCfg.DefaultTimezone != "" {
		dtz = *cronCfg.DefaultTimezone
	}
	var tztbl []string
	tzs := []string{dtz}
	if rjc.Spec.Schedule != nil && rjc.Spec.Schedule.Cron != nil {
		tzs = append(tzs, rjc.Spec.Schedule.Cron.Timezone)
	}
	for _, tz := range tzs {
		_, terr := tzutils.ParseTimezone(tz)
		tztbl = append(tztbl, CPair(CStr(tz), CBool(terr == nil)))
	}

	// model term (of the mutated object, which is what the validator saw)
	schedTerm := "None"
	if s := rjc.Spec.Schedule; s != nil {
		cronTerm := "None"
		if s.Cron != nil {
			cronTerm = "(Some " + CPair(CPair(CStr(s.Cron.Expression), CListStr(s.Cron.Expressions)), CStr(s.Cron.Timezone)) + ")"
		}
		schedTerm = "(Some " + CApp("mkAS", cronTerm, CBool(s.Disabled)) + ")"
	}
	var optTerms []string
	if rjc.Spec.Option != nil {
		for k, o := range rjc.Spec.Option.Options {
			optTerms = append(optTerms, CPair(optTermOf(o), CBool(extras[k])))
		}
	}
	jcTerm := CApp("mkAJC", CStr(rjc.Name), CStr(string(rjc.Spec.Concurrency.Policy)), COptZ(rjc.Spec.Concurrency.MaxConcurrency), schedTerm, CList(optTerms), tmplTerm(&rjc.Spec.Template.Spec))
	term := CApp("VJC", CList(ptbl), CList(tztbl), CStr(dtz), CStr(key), jcTerm, CBool(accepted), CBool(loads), CBool(defaultsOK))
	res.Distribution[fmt.Sprintf("jc-accepted-%v", accepted)]++
	res.Add(term, js, fmt.Sprint(jcTerm, cc), accepted)

	// monitor: whatever admission accepts the controllers can process
	if !accepted {
		return
	}
	if !loads {
		hit("C17/accepted-jobconfig-unloadable", fmt.Sprintf("admission accepted the JobConfig but the cron scheduler cannot load it: %v", lerr))
	}
	if derr != nil {
		hit("C17/accepted-jobconfig-not-instantiable", fmt.Sprintf("NewJobFromJobConfig: %v", derr))
		return
	}
	// a Job created from it (values given for its required options) passes defaulting and validation
	sc.informers.JobConfigs.Set(rjc)
	values := map[string]interface{}{}
	for _, o := range optionsOf(rjc) {
		if o.Required {
			values[o.Name] = satisfyingValue(c, o)
		}
	}
	rj := &execution.Job{ObjectMeta: metav1.ObjectMeta{Namespace: "ns", Name: jobconfig.GenerateName(rjc.Name, now), UID: types.UID("job-uid")}}
	rj.Spec.ConfigName = rjc.Name
	if len(values) > 0 {
		b, _ := json.Marshal(values)
		rj.Spec.OptionValues = string(b)
	}
	jres := mutation.NewJobPatcher(sc).Patch("CREATE", nil, rj)
	if len(jres.Errors) > 0 {
		hit("C17/job-of-accepted-jobconfig-fails-defaulting", fmt.Sprintf("options %v values %v: %v", optionsOf(rjc), values, jres.Errors))
		return
	}
	jerrs := val.ValidateJob(rj)
	jerrs = append(jerrs, val.ValidateJobCreate(rj)...)
	if len(jerrs) > 0 {
		hit("C17/job-of-accepted-jobconfig-fails-validation", fmt.Sprint(jerrs))
		return
	}
	// ... and can be turned into task objects
	func() {
		defer func() {
			if r := recover(); r != nil {
				hit("C17/task-creation-panics", fmt.Sprint(r))
			}
		}()
		tmpl := rj.Spec.Template.TaskTemplate.Pod.ConvertToCoreSpec()
		for n, ix := range parallel.GenerateIndexes(rj.Spec.Template.Parallelism) {
			if n > 30 {
				break
			}
			if _, err := podtaskexecutor.NewPod(rj, tmpl, tasks.TaskIndex{Retry: 0, Parallel: ix}); err != nil {
				hit("C17/task-creation-fails", err.Error())
			}
		}
	}()
	_ = context.Background
}

func valJobCase(c *PRNG, res *Result) {
	sc := NewSimContext()
	js := map[string]interface{}{}
	mostlyValid := c.Chance(1, 2)
	rj := &execution.Job{ObjectMeta: metav1.ObjectMeta{Namespace: "ns", Name: Pick(c, []string{"job", strings.Repeat("j", 60), strings.Repeat("j", 61)})}}
	rj.Spec.Type = Pick(c, []execution.JobType{"", execution.JobTypeAdhoc, execution.JobTypeScheduled, "Weird"})
	if c.Chance(1, 2) {
		rj.Spec.StartPolicy = &execution.StartPolicySpec{ConcurrencyPolicy: Pick(c, []execution.ConcurrencyPolicy{"", "Allow", "Forbid", "Enqueue", "Nope"})}
	}
	if c.Chance(1, 2) {
		rj.Spec.TTLSecondsAfterFinished = pointer.Int64(Pick(c, []int64{0, 3600, -1}))
	}
	if !c.Chance(1, 8) {
		t := genJobTemplate(c, mostlyValid)
		rj.Spec.Template = &t
	}
	if mostlyValid {
		rj.Name = "job"
		if rj.Spec.Type == "Weird" {
			rj.Spec.Type = ""
		}
		if sp := rj.Spec.StartPolicy; sp != nil && !sp.ConcurrencyPolicy.IsValid() {
			sp.ConcurrencyPolicy = execution.ConcurrencyPolicyEnqueue
		}
		if t := rj.Spec.TTLSecondsAfterFinished; t != nil && *t < 0 {
			rj.Spec.TTLSecondsAfterFinished = pointer.Int64(60)
		}
	}
	if c.Bool() || mostlyValid {
		mutation.NewMutator(sc).MutateJob(rj)
	}
	js["job"] = rj
	errs := validation.NewValidator(sc).ValidateJob(rj)
	js["errors"] = fmt.Sprint(errs)
	pol := "None"
	if rj.Spec.StartPolicy != nil {
		pol = "(Some " + CStr(string(rj.Spec.StartPolicy.ConcurrencyPolicy)) + ")"
	}
	tt := "None"
	if rj.Spec.Template != nil {
		tt = "(Some " + tmplTerm(rj.Spec.Template) + ")"
	}
	term := CApp("VJob", CApp("mkAJ", CStr(rj.Name), CStr(string(rj.Spec.Type)), pol, COptZ(rj.Spec.TTLSecondsAfterFinished), tt), CBool(len(errs) == 0))
	res.Distribution[fmt.Sprintf("job-accepted-%v", len(errs) == 0)]++
	res.Add(term, js, term, len(errs) == 0)
}

// one immutable field of a Job: its variants and their Semantic.DeepEqual classes
type immField struct {
	name    string
	classes []int64
	set     []func(*execution.Job)
}

func valUpdateCase(c *PRNG, res *Result) {
	sc := NewSimContext()
	js := map[string]interface{}{}
	hit := func(sig, what string) { res.Hits = append(res.Hits, MonitorHit{"C17", sig, what, js}) }
	now := int64(1700000000)
	validation.Clock = clocktesting.NewFakeClock(time.Unix(now, 0))
	base := func() *execution.Job {
		rj := &execution.Job{ObjectMeta: metav1.ObjectMeta{Namespace: "ns", Name: "job", Labels: map[string]string{"app": "x"}}}
		rj.Spec.Type = execution.JobTypeAdhoc
		rj.Spec.Template = &execution.JobTemplate{TaskTemplate: execution.TaskTemplate{Pod: &execution.PodTemplateSpec{Spec: corev1.PodSpec{Containers: []corev1.Container{{Name: "c", Image: "a"}}}}}}
		return rj
	}
	fields := []immField{
		{"configName", []int64{0, 1}, []func(*execution.Job){func(j *execution.Job) {}, func(j *execution.Job) { j.Spec.ConfigName = "jc" }}},
		{"type", []int64{0, 1}, []func(*execution.Job){func(j *execution.Job) {}, func(j *execution.Job) { j.Spec.Type = execution.JobTypeScheduled }}},
		{"optionValues", []int64{0, 1, 2}, []func(*execution.Job){func(j *execution.Job) {}, func(j *execution.Job) { j.Spec.OptionValues = `{"a":1}` }, func(j *execution.Job) { j.Spec.OptionValues = `{"a":2}` }}},
		{"substitutions", []int64{0, 0, 1, 2}, []func(*execution.Job){func(j *execution.Job) {}, func(j *execution.Job) { j.Spec.Substitutions = map[string]string{} },
			func(j *execution.Job) { j.Spec.Substitutions = map[string]string{"a": "1"} }, func(j *execution.Job) { j.Spec.Substitutions = map[string]string{"a": "2"} }}},
		{"taskTemplate", []int64{0, 1, 2}, []func(*execution.Job){func(j *execution.Job) {}, func(j *execution.Job) { j.Spec.Template.TaskTemplate.Pod.Spec.Containers[0].Image = "b" },
			func(j *execution.Job) { j.Spec.Template.TaskTemplate.Pod.Spec.Containers[0].Args = []string{"x"} }}},
		{"parallelism", []int64{0, 1, 2}, []func(*execution.Job){func(j *execution.Job) {}, func(j *execution.Job) {
			j.Spec.Template.Parallelism = &execution.ParallelismSpec{WithCount: pointer.Int64(2)}
		},
			func(j *execution.Job) {
				j.Spec.Template.Parallelism = &execution.ParallelismSpec{WithCount: pointer.Int64(3)}
			}}},
		{"maxAttempts", []int64{0, 1, 2}, []func(*execution.Job){func(j *execution.Job) {}, func(j *execution.Job) { j.Spec.Template.MaxAttempts = pointer.Int64(1) }, func(j *execution.Job) { j.Spec.Template.MaxAttempts = pointer.Int64(2) }}},
		{"retryDelaySeconds", []int64{0, 1, 2}, []func(*execution.Job){func(j *execution.Job) {}, func(j *execution.Job) { j.Spec.Template.RetryDelaySeconds = pointer.Int64(0) }, func(j *execution.Job) { j.Spec.Template.RetryDelaySeconds = pointer.Int64(9) }}},
		{"jobconfig-uid label", []int64{0, 1, 2}, []func(*execution.Job){func(j *execution.Job) {}, func(j *execution.Job) { j.Labels[jobconfig.LabelKeyJobConfigUID] = "u1" }, func(j *execution.Job) { j.Labels[jobconfig.LabelKeyJobConfigUID] = "u2" }}},
		{"startPolicy", []int64{0, 1, 2, 3}, []func(*execution.Job){func(j *execution.Job) {}, func(j *execution.Job) { j.Spec.StartPolicy = &execution.StartPolicySpec{ConcurrencyPolicy: "Allow"} },
			func(j *execution.Job) { j.Spec.StartPolicy = &execution.StartPolicySpec{ConcurrencyPolicy: "Forbid"} },
			func(j *execution.Job) {
				j.Spec.StartPolicy = &execution.StartPolicySpec{ConcurrencyPolicy: "Allow", StartAfter: mtp(ip(now + 60))}
			}}},
	}
	oldJ, newJ := base(), base()
	var oc, nc []int64
	changed := map[string]bool{}
	for _, f := range fields {
		a := c.Intn(len(f.set))
		b := a
		if c.Chance(1, 6) {
			b = c.Intn(len(f.set))
		}
		f.set[a](oldJ)
		f.set[b](newJ)
		oc, nc = append(oc, f.classes[a]), append(nc, f.classes[b])
		if f.classes[a] != f.classes[b] {
			changed[f.name] = true
		}
	}
	kills := []*int64{nil, ip(now - 100), ip(now - 1), ip(now), ip(now + 1), ip(now + 500)}
	ok := Pick(c, kills)
	nk := ok
	if c.Chance(1, 3) {
		nk = Pick(c, kills)
	}
	oldJ.Spec.KillTimestamp, newJ.Spec.KillTimestamp = mtp(ok), mtp(nk)
	started := c.Chance(1, 2)
	if started {
		newJ.Status.StartTime = mtp(ip(now - 50))
		if c.Bool() {
			oldJ.Status.StartTime = mtp(ip(now - 50))
		}
	}
	// mutable fields may change freely
	if c.Bool() {
		newJ.Spec.TTLSecondsAfterFinished = pointer.Int64(5)
		newJ.Annotations = map[string]string{"note": "edited"}
	}
	errs := validation.NewValidator(sc).ValidateJobUpdate(oldJ, newJ)
	accepted := len(errs) == 0
	js["old"], js["new"], js["errors"] = oldJ, newJ, fmt.Sprint(errs)
	// the admission entry point itself: the validating webhook decodes the request and must
	// decide exactly as the rules do on the two objects the API server sent
	{
		oldRaw, _ := json.Marshal(oldJ)
		newRaw, _ := json.Marshal(newJ)
		hook, _ := jobvalidatingwebhook.NewWebhook(sc)
		resp, err := hook.Handle(context.Background(), &admissionv1.AdmissionRequest{Kind: gvkOf("Job"), Operation: admissionv1.Update,
			Object: runtime.RawExtension{Raw: newRaw}, OldObject: runtime.RawExtension{Raw: oldRaw}})
		if err != nil {
			hit("C17/webhook-error-on-update", fmt.Sprintf("the validating webhook failed on a well-formed update: %v", err))
		} else if want := accepted && len(validation.NewValidator(sc).ValidateJob(newJ)) == 0; resp.Allowed != want {
			hit("C17/webhook-decision-differs-from-rules", fmt.Sprintf("the validating webhook allowed=%v; the rules (ValidateJob on the new object, ValidateJobUpdate on the two objects the API server sent) say %v (%v)", resp.Allowed, want, errs))
		}
	}
	ver := func(cl []int64, kill *int64, st bool) string {
		return CApp("mkJV", CZ(cl[0]), CZ(cl[1]), CZ(cl[2]), CZ(cl[3]), CZ(cl[4]), CZ(cl[5]), CZ(cl[6]), CZ(cl[7]), CZ(cl[8]), CZ(cl[9]), COptZ(kill), CBool(st))
	}
	term := CApp("VUpd", CZ(now), ver(oc, ok, !oldJ.Status.StartTime.IsZero()), ver(nc, nk, started), CBool(accepted))
	res.Distribution[fmt.Sprintf("update-accepted-%v", accepted)]++
	res.Add(term, js, term, accepted && (len(changed) > 0 || ok != nk))
	// monitor: the property's list of immutable fields
	if accepted {
		for name := range changed {
			if name == "startPolicy" && !started {
				continue
			}
			hit("C17/immutable-field-changed", fmt.Sprintf("update accepted although %s changed", name))
		}
		if ok != nil && *ok < now && (nk == nil || *nk != *ok) {
			hit("C17/kill-timestamp-changed-after-it-passed", fmt.Sprintf("killTimestamp %d (passed at now=%d) changed to %v", *ok, now, fmtp(nk)))
		}
	} else {
		// a check that demands more than the rules: only listed changes may be refused
		legit := len(changed) > 0 && !(len(changed) == 1 && changed["startPolicy"] && !started)
		if changed["startPolicy"] && started {
			legit = true
		}
		if ok != nil && *ok < now && (nk == nil || *nk != *ok) {
			legit = true
		}
		if !legit {
			hit("C17/legitimate-update-refused", fmt.Sprintf("update refused although no immutable field changed: %v", errs))
		}
	}
}
