package main

import (
	"context"
	"fmt"
	"sort"
	"strings"
	"time"

	corev1 "k8s.io/api/core/v1"
	metav1 "k8s.io/apimachinery/pkg/apis/meta/v1"
	"k8s.io/client-go/tools/record"

	configv1alpha1 "github.com/furiko-io/furiko/apis/config/v1alpha1"
	execution "github.com/furiko-io/furiko/apis/execution/v1alpha1"
	"github.com/furiko-io/furiko/pkg/execution/controllers/jobcontroller"
	jobutil "github.com/furiko-io/furiko/pkg/execution/util/job"
)

// Family "jobsync" (C08-C13, history parts of C10/C11): the real job controller
// reconciler on one Job and its Pods, driven op by op against Job/World.v.

func init() {
	register(&Family{Name: "jobsync", Run: runJobSync, CheckModule: "Cases.JobSyncCheck", CaseOK: "js_ok"})
}

// jsScripts are corpus cases that run first on every run; the open known findings of the
// job family are reproduced from them.
var jsScripts = []string{
	"F4-pod-cache-lag-task-lost-while-alive",
	"F4c-finalizer-dropped-while-tasks-exist",
	"F15-admission-error-leaves-tasks",
	"F16-foreign-pod-bound-by-name",
	"F17-stale-job-cache-recreates-attempt",
	"S-admission-error-then-kill",
	"S-deleted-before-first-task",
	"S-deleted-in-retry-backoff",
	"F4-finished-pod-recorded-lost-then-corrected",
	"F10-kill-conflict-leaves-unrecorded-task",
	"S-pending-timeout-then-succeeds-while-terminating",
}

type jsCfg struct {
	Pending *int64 `json:"pending"`
	Force   *int64 `json:"force"`
	TTL     *int64 `json:"ttl"`
}

func (c jsCfg) obj() *configv1alpha1.JobExecutionConfig {
	return &configv1alpha1.JobExecutionConfig{
		DefaultPendingTimeoutSeconds:   c.Pending,
		ForceDeleteTaskTimeoutSeconds:  c.Force,
		DefaultTTLSecondsAfterFinished: c.TTL,
	}
}
func (c jsCfg) coq() string { return CApp("mkCfg", COptZ(c.Pending), COptZ(c.Force), COptZ(c.TTL)) }

type jsOp struct {
	Kind  string `json:"kind"`
	T     int64  `json:"t,omitempty"`
	Name  string `json:"name,omitempty"`
	Step  string `json:"step,omitempty"`
	Hash  string `json:"hash,omitempty"`
	Retry int64  `json:"retry,omitempty"`
	N     int    `json:"n,omitempty"`
	Fault string `json:"fault,omitempty"`
	// SameName: the foreign Pod is controlled by a Job with this Job's NAME but another UID
	// (a Pod left over from a deleted Job of the same name)
	SameName bool `json:"sameName,omitempty"`
}

var kstepCtor = map[string]string{"schedule": "KSchedule", "run": "KRun", "succeed": "KSucceed", "fail": "KFail", "oom": "KOom", "terminate": "KTerminate", "vanish": "KVanish"}
var faultCtor = map[string]string{"create-pod": "FCreatePod", "create-pod-invalid": "FCreatePodInvalid", "delete-pod": "FDeletePod", "update-job": "FUpdateJob", "update-status": "FUpdateStatus", "delete-job": "FDeleteJob"}

func (o jsOp) coq() string {
	switch o.Kind {
	case "clock":
		return CApp("JClock", CZ(o.T))
	case "kubelet":
		return CApp("JKubelet", CStr(o.Name), kstepCtor[o.Step])
	case "foreign":
		return CApp("JForeign", CStr(o.Hash), CZ(o.Retry))
	case "start":
		return "JStart"
	case "kill":
		return CApp("JKill", CZ(o.T))
	case "delete":
		return "JDelete"
	case "advjob":
		return CApp("JAdvanceJob", CNat(o.N))
	case "advpods":
		return CApp("JAdvancePods", CNat(o.N))
	case "fault":
		return CApp("JFault", faultCtor[o.Fault])
	case "sync":
		return "JSync"
	}
	panic("op " + o.Kind)
}

type jsObs struct {
	World      string         `json:"-"`
	Actions    []simAction    `json:"actions"`
	OK         bool           `json:"ok"`
	Armed      bool           `json:"armed"`
	Job        *execution.Job `json:"-"`
	Pods       []*corev1.Pod  `json:"-"`
	CachedJob  *execution.Job `json:"-"`
	PodLag     bool           `json:"podLag"` // Pod events were still undelivered to the cache when the pass ran
	JobLag     bool           `json:"jobLag"`
	CachedPods []*corev1.Pod  `json:"-"`
	Trace      string         `json:"trace"` // human-readable summary of the state after the op
	Now        int64          `json:"now"`
}

type jsImpl struct {
	sc    *SimContext
	api   *SimAPI
	jctx  *jobcontroller.Context
	recon *jobcontroller.Reconciler
	q     *SimQueue
	terms int
}

func newJSImpl(cfg jsCfg, m *mJob, now int64) *jsImpl {
	im := &jsImpl{sc: NewSimContext()}
	im.sc.SetConfig(configv1alpha1.JobExecutionConfigName, cfg.obj())
	im.api = NewSimAPI(im.sc, now)
	im.jctx = jobcontroller.NewContextWithRecorder(im.sc, record.NewFakeRecorder(100000))
	im.q = NewSimQueue()
	im.jctx.VerifSetQueue(im.q)
	jobcontroller.NewInformerWorker(im.jctx)
	im.recon = jobcontroller.NewReconciler(im.jctx, nil)
	rj, err := jobcontroller.UpdateJobStatusFromTaskRefs(m.obj())
	if err != nil {
		panic(err)
	}
	im.api.storeJob(rj, true)
	im.api.AdvanceJobs(1000)
	return im
}

func podView(p *corev1.Pod, scheduled bool) (string, []int64) {
	ph := map[corev1.PodPhase]int64{corev1.PodPending: 0, "": 0, corev1.PodRunning: 1, corev1.PodSucceeded: 2, corev1.PodFailed: 3}[p.Status.Phase]
	oom, cs, cf := int64(0), int64(-1), int64(-1)
	for _, c := range p.Status.ContainerStatuses {
		if c.State.Running != nil {
			cs = c.State.Running.StartedAt.Unix()
		}
		if t := c.State.Terminated; t != nil {
			if !t.StartedAt.IsZero() {
				cs = t.StartedAt.Unix()
			}
			if !t.FinishedAt.IsZero() {
				cf = t.FinishedAt.Unix()
			}
			if t.Reason == "OOMKilled" {
				oom = 1
			}
		}
	}
	ctl := int64(0)
	if ref := metav1.GetControllerOf(p); ref != nil && ref.Kind == "Job" && string(ref.UID) == jobUID {
		ctl = 1
	}
	sch := int64(0)
	if scheduled {
		sch = 1
	}
	return p.Name, []int64{ph, oom, ozt(p.DeletionTimestamp), sch, p.CreationTimestamp.Unix(), ozt(p.Status.StartTime), cs, cf, ctl}
}

func (im *jsImpl) worldView() string {
	var jv string
	rj := im.api.getJob(jobName)
	if rj != nil {
		adm := int64(0)
		if _, ok := jobutil.GetAdmissionErrorMessage(rj); ok {
			adm = 1
		}
		fin := int64(0)
		if len(rj.Finalizers) > 0 {
			fin = 1
		}
		jv = CPair(CListZ([]int64{1, adm, fin, ozt(rj.DeletionTimestamp), ozt(rj.Spec.KillTimestamp), ozt(rj.Status.StartTime), im.api.rv}), viewJobStatus(rj))
	} else {
		jv = CPair(CListZ([]int64{0}), "([], [], [])")
	}
	var pv []string
	for _, p := range im.api.listPods() {
		n, v := podView(p, im.api.scheduled[p.Name])
		pv = append(pv, CPair(CStr(n), CListZ(v)))
	}
	return CPair(jv, CList(pv))
}

func actionsView(acts []simAction) string {
	code := map[string]int64{"create": 0, "delete": 1, "update-job": 2, "update-status": 3, "delete-job": 4}
	type av struct {
		name string
		v    []int64
	}
	var l []av
	for _, a := range acts {
		f := int64(0)
		if a.Force {
			f = 1
		}
		n := a.Name
		if code[a.Verb] >= 2 {
			n = ""
		}
		l = append(l, av{n, []int64{code[a.Verb], f, a.Outcome}})
	}
	sort.SliceStable(l, func(i, j int) bool {
		if l[i].v[0] != l[j].v[0] {
			return l[i].v[0] < l[j].v[0]
		}
		if l[i].name != l[j].name {
			return l[i].name < l[j].name
		}
		if l[i].v[1] != l[j].v[1] {
			return l[i].v[1] < l[j].v[1]
		}
		return l[i].v[2] < l[j].v[2]
	})
	it := make([]string, len(l))
	for i, a := range l {
		it[i] = CPair(CStr(a.name), CListZ(a.v))
	}
	return CList(it)
}

func (im *jsImpl) kubelet(name, step string) {
	p := im.api.getPod(name)
	if p == nil {
		return
	}
	p = p.DeepCopy()
	now := metav1.NewTime(time.Unix(im.api.now(), 0).UTC())
	contStart := func() metav1.Time {
		for _, c := range p.Status.ContainerStatuses {
			if c.State.Running != nil {
				return c.State.Running.StartedAt
			}
			if c.State.Terminated != nil {
				return c.State.Terminated.StartedAt
			}
		}
		return metav1.Time{}
	}
	term := func(phase corev1.PodPhase, reason string, code int32) {
		st := contStart()
		p.Status.Phase = phase
		p.Status.ContainerStatuses = []corev1.ContainerStatus{{Name: "c", State: corev1.ContainerState{Terminated: &corev1.ContainerStateTerminated{Reason: reason, ExitCode: code, StartedAt: st, FinishedAt: now}}}}
		im.terms++
		if im.terms%2 == 0 && reason != "OOMKilled" && !st.IsZero() {
			// every other termination is that of a container that was OOM-killed once and
			// restarted before (restartPolicy OnFailure): lastState holds the earlier kill
			p.Status.ContainerStatuses[0].RestartCount = 1
			p.Status.ContainerStatuses[0].LastTerminationState.Terminated = &corev1.ContainerStateTerminated{Reason: "OOMKilled", ExitCode: 137,
				StartedAt: metav1.NewTime(st.Add(-2 * time.Second)), FinishedAt: metav1.NewTime(st.Add(-1 * time.Second))}
		}
		im.api.putPod(p)
	}
	switch step {
	case "schedule":
		if im.api.scheduled[name] {
			return
		}
		im.api.scheduled[name] = true
		// spec.nodeName stays empty: TaskRef.nodeName is not part of the model (invisible status diffs otherwise)
		p.Status.StartTime = &now
		p.Status.Conditions = []corev1.PodCondition{{Type: corev1.PodScheduled, Status: corev1.ConditionTrue}}
		im.api.putPod(p)
	case "run":
		p.Status.Phase = corev1.PodRunning
		p.Status.ContainerStatuses = []corev1.ContainerStatus{{Name: "c", State: corev1.ContainerState{Running: &corev1.ContainerStateRunning{StartedAt: now}}}}
		im.api.putPod(p)
	case "succeed":
		term(corev1.PodSucceeded, "Completed", 0)
	case "fail":
		term(corev1.PodFailed, "Error", 1)
	case "oom":
		term(corev1.PodFailed, "OOMKilled", 137)
	case "terminate":
		if p.DeletionTimestamp != nil {
			im.api.removePod(name)
		}
	case "vanish":
		im.api.removePod(name)
	}
}

func (im *jsImpl) apply(o jsOp, m *mJob) jsObs {
	obs := jsObs{OK: true}
	im.api.actions = nil
	switch o.Kind {
	case "clock":
		if o.T > im.api.now() {
			im.api.clk.SetTime(time.Unix(o.T, 0))
		}
	case "kubelet":
		im.kubelet(o.Name, o.Step)
	case "foreign":
		name := taskName(o.Hash, o.Retry)
		if im.api.getPod(name) == nil {
			ix := -1
			for i, h := range m.Hashes {
				if h == o.Hash {
					ix = i
				}
			}
			p := m.podObj(mPod{Name: name, Hash: o.Hash, Index: ix, Retry: o.Retry, Controlled: false, Phase: "Pending"})
			p.Status.ContainerStatuses = nil
			if o.SameName {
				tr := true
				p.OwnerReferences = []metav1.OwnerReference{{APIVersion: "execution.furiko.io/v1alpha1", Kind: "Job", Name: jobName, UID: "uid-of-an-older-job", Controller: &tr}}
			}
			if err := im.api.createPodRaw(p); err != nil {
				panic(err)
			}
		}
	case "start":
		if rj := im.api.getJob(jobName); rj != nil && rj.Status.StartTime.IsZero() {
			rj = rj.DeepCopy()
			t := metav1.NewTime(time.Unix(im.api.now(), 0).UTC())
			rj.Status.StartTime = &t
			im.api.storeJob(rj, false)
		}
	case "kill":
		if rj := im.api.getJob(jobName); rj != nil {
			rj = rj.DeepCopy()
			t := metav1.NewTime(time.Unix(o.T, 0).UTC())
			rj.Spec.KillTimestamp = &t
			im.api.storeJob(rj, false)
		}
	case "delete":
		im.api.deleteJob(jobName)
	case "advjob":
		im.api.AdvanceJobs(o.N)
	case "advpods":
		im.api.AdvancePods(o.N)
	case "fault":
		im.api.faults = append(im.api.faults, o.Fault)
	case "sync":
		before := len(im.q.Log)
		cj, _ := im.jctx.Informers().Furiko().Execution().V1alpha1().Jobs().Lister().Jobs("ns").Get(jobName)
		obs.CachedJob = cj
		for _, o := range im.sc.informers.Pods.sortedList() {
			obs.CachedPods = append(obs.CachedPods, o.(*corev1.Pod).DeepCopy())
		}
		obs.PodLag = len(im.api.podEv) > 0
		obs.JobLag = len(im.api.jobEv) > 0
		err := im.recon.SyncOne(context.Background(), "ns", jobName, 0)
		im.api.EndPass()
		obs.OK = err == nil
		for _, l := range im.q.Log[before:] {
			if strings.HasPrefix(l, "after ") {
				obs.Armed = true
			}
		}
	}
	obs.Actions = append([]simAction{}, im.api.actions...)
	ok, armed := int64(0), int64(0)
	if obs.OK {
		ok = 1
	}
	if obs.Armed {
		armed = 1
	}
	obs.World = CPair(CPair(im.worldView(), actionsView(obs.Actions)), CListZ([]int64{ok, armed}))
	if rj := im.api.getJob(jobName); rj != nil {
		obs.Job = rj.DeepCopy()
	}
	obs.Pods = im.api.listPods()
	obs.Now = im.api.now()
	tr := fmt.Sprintf("t=%d ", obs.Now-1700000000)
	if obs.Job != nil {
		tr += fmt.Sprintf("job[%s kill=%d del=%d fin=%v] refs[", obs.Job.Status.Phase, ozt(obs.Job.Spec.KillTimestamp)%100000, ozt(obs.Job.DeletionTimestamp)%100000, obs.Job.Finalizers != nil)
		for _, r := range obs.Job.Status.Tasks {
			d := ""
			if r.DeletedStatus != nil {
				d = "/" + string(r.DeletedStatus.Result) + r.DeletedStatus.Reason
			}
			tr += fmt.Sprintf("%s:%s%s%s fin=%d ", r.Name, r.Status.State, r.Status.Result, d, ozt(r.FinishTimestamp)%100000)
		}
		tr += "] "
	} else {
		tr += "job[gone] "
	}
	tr += "pods["
	for _, pd := range obs.Pods {
		tr += fmt.Sprintf("%s:%s del=%d ", pd.Name, pd.Status.Phase, ozt(pd.DeletionTimestamp)%100000)
	}
	tr += "]"
	obs.Trace = tr
	return obs
}

func runJobSync(ctx *RunCtx) *Result {
	res := NewResult()
	jobStartupCheck(res)
	p := NewPRNG(ctx.Seed)
	for i := 0; i < ctx.N; i++ {
		c := p.Fork()
		now := int64(1700000000)
		g := &jobGen{p: c, now: now}
		m := g.genJob()
		// a fresh, admitted, not yet started Job
		m.Start, m.Kill, m.Deletion, m.AdmErr, m.OldFinish, m.Tasks = nil, nil, nil, false, nil, nil
		retryFocus := c.Chance(1, 4) // staggered failures of several indexes with a retry delay
		if retryFocus {
			m.Shape, m.Count = "count", int64(2+c.Intn(2))
			m.MaxAttempts = 3
			m.RetryDelay = Pick(c, []int64{30, 60})
			m.Strategy = Pick(c, []string{"", "All"})
			m.init()
		}
		m.Finalizer = true // admitted Jobs always carry the delete-dependents finalizer (C16)
		cfg := jsCfg{}
		if c.Chance(2, 3) {
			cfg.Pending = ip(Pick(c, []int64{0, 30, 900}))
		}
		if c.Chance(2, 3) {
			cfg.Force = ip(Pick(c, []int64{0, 20, 60}))
		}
		if c.Chance(2, 3) {
			cfg.TTL = ip(Pick(c, []int64{0, 60, 3600}))
		}
		script := ""
		if i < len(jsScripts) {
			script = jsScripts[i]
			// scripted corpus cases: fixed Job, fixed configuration
			m = &mJob{Shape: "none", MaxAttempts: 2, Finalizer: true}
			if script == "F15-admission-error-leaves-tasks" {
				m = &mJob{Shape: "count", Count: 2, MaxAttempts: 1, Finalizer: true}
			}
			if script == "S-admission-error-then-kill" {
				m = &mJob{Shape: "count", Count: 2, MaxAttempts: 2, Finalizer: true}
			}
			if script == "S-deleted-in-retry-backoff" {
				m = &mJob{Shape: "none", MaxAttempts: 2, RetryDelay: 60, Finalizer: true}
			}
			m.init()
			cfg = jsCfg{Pending: ip(900), Force: ip(900), TTL: ip(3600)}
		}
		im := newJSImpl(cfg, m, now)
		var ops []jsOp
		var obs []jsObs
		do := func(o jsOp) {
			ops = append(ops, o)
			obs = append(obs, im.apply(o, m))
			res.Count("op-" + o.Kind)
		}
		settle := func() {
			do(jsOp{Kind: "advjob", N: 1000})
			do(jsOp{Kind: "advpods", N: 1000})
		}
		nops := 20 + c.Intn(50)
		if script != "" {
			nops = 0
			h0 := m.Hashes[0]
			p0 := taskName(h0, 0)
			do(jsOp{Kind: "start"})
			switch script {
			case "F4-pod-cache-lag-task-lost-while-alive":
				settle()
				do(jsOp{Kind: "sync"}) // creates the Pod, records it
				do(jsOp{Kind: "advjob", N: 1000})
				do(jsOp{Kind: "sync"}) // Job cache has the ref, Pod cache has not seen the Pod yet
				do(jsOp{Kind: "kubelet", Name: p0, Step: "schedule"})
				do(jsOp{Kind: "kubelet", Name: p0, Step: "run"})
			case "F4c-finalizer-dropped-while-tasks-exist":
				settle()
				do(jsOp{Kind: "sync"})
				do(jsOp{Kind: "kubelet", Name: p0, Step: "schedule"})
				do(jsOp{Kind: "kubelet", Name: p0, Step: "run"})
				do(jsOp{Kind: "delete"})
				do(jsOp{Kind: "advjob", N: 1000})
				do(jsOp{Kind: "sync"}) // deleting Job, Pod cache still empty
				do(jsOp{Kind: "advjob", N: 1000})
				do(jsOp{Kind: "sync"})
			case "F15-admission-error-leaves-tasks":
				do(jsOp{Kind: "foreign", Hash: m.Hashes[1], Retry: 0})
				settle()
				do(jsOp{Kind: "sync"})
				do(jsOp{Kind: "kubelet", Name: p0, Step: "schedule"})
				do(jsOp{Kind: "kubelet", Name: p0, Step: "run"})
			case "S-admission-error-then-kill":
				// both tasks run and are recorded; index 0 fails, the name of its retry is taken: the
				// Job is refused (AdmissionError) while the recorded task of index 1 still runs; then
				// the user kills the Job
				p1 := taskName(m.Hashes[1], 0)
				settle()
				do(jsOp{Kind: "sync"})
				for _, pn := range []string{p0, p1} {
					do(jsOp{Kind: "kubelet", Name: pn, Step: "schedule"})
					do(jsOp{Kind: "kubelet", Name: pn, Step: "run"})
				}
				settle()
				do(jsOp{Kind: "sync"})
				do(jsOp{Kind: "foreign", Hash: h0, Retry: 1})
				do(jsOp{Kind: "kubelet", Name: p0, Step: "fail"})
				settle()
				do(jsOp{Kind: "sync"})
				settle()
				do(jsOp{Kind: "sync"})
				do(jsOp{Kind: "kill", T: im.api.now()})
				do(jsOp{Kind: "clock", T: im.api.now() + 2})
			case "F4-finished-pod-recorded-lost-then-corrected":
				// the witness of c11_finish_time_stable_refuted: the Pod finishes while the Pod cache
				// has not seen it at all; recorded lost at the time of the pass, corrected later
				settle()
				do(jsOp{Kind: "sync"})
				do(jsOp{Kind: "advjob", N: 1000})
				do(jsOp{Kind: "kubelet", Name: p0, Step: "schedule"})
				do(jsOp{Kind: "clock", T: now + 5})
				do(jsOp{Kind: "kubelet", Name: p0, Step: "run"})
				do(jsOp{Kind: "clock", T: now + 10})
				do(jsOp{Kind: "kubelet", Name: p0, Step: "succeed"})
				do(jsOp{Kind: "clock", T: now + 20})
				do(jsOp{Kind: "sync"})
				settle()
				do(jsOp{Kind: "clock", T: now + 30})
				do(jsOp{Kind: "sync"})
			case "F10-kill-conflict-leaves-unrecorded-task":
				// the witness of c12_killed_job_leaves_no_task_alive_refuted
				settle()
				do(jsOp{Kind: "kill", T: im.api.now()})
				do(jsOp{Kind: "sync"}) // cached Job without the kill timestamp: creates the task; the status write conflicts
				settle()
				do(jsOp{Kind: "clock", T: now + 5})
				do(jsOp{Kind: "sync"})
				settle()
				do(jsOp{Kind: "sync"})
				settle()
				do(jsOp{Kind: "sync"})
			case "S-pending-timeout-then-succeeds-while-terminating":
				// the task is killed by the pending timeout (tombstone: Killed / PendingTimeout), but
				// its container still starts and exits 0 during the grace period: the index has
				// succeeded, the tombstone must say so, and no retry may follow once the Pod is gone
				settle()
				do(jsOp{Kind: "sync"})
				do(jsOp{Kind: "kubelet", Name: p0, Step: "schedule"})
				settle()
				do(jsOp{Kind: "sync"})
				do(jsOp{Kind: "clock", T: now + 901})
				settle()
				do(jsOp{Kind: "sync"})
				settle()
				do(jsOp{Kind: "sync"})
				do(jsOp{Kind: "kubelet", Name: p0, Step: "run"})
				do(jsOp{Kind: "clock", T: now + 903})
				do(jsOp{Kind: "kubelet", Name: p0, Step: "succeed"})
				settle()
				do(jsOp{Kind: "sync"})
				settle()
				do(jsOp{Kind: "kubelet", Name: p0, Step: "terminate"})
				settle()
				do(jsOp{Kind: "sync"})
				settle()
				do(jsOp{Kind: "sync"})
				do(jsOp{Kind: "clock", T: now + 1000})
				settle()
				do(jsOp{Kind: "sync"})
				settle()
				do(jsOp{Kind: "sync"})
			case "S-deleted-before-first-task":
				// the user deletes a started Job before the controller's first pass: nothing may be
				// created for a Job that is being deleted, and the Job goes away without tasks
				do(jsOp{Kind: "delete"})
				settle()
				do(jsOp{Kind: "sync"})
				settle()
				do(jsOp{Kind: "sync"})
			case "S-deleted-in-retry-backoff":
				// first attempt failed and its Pod is gone; the user deletes the Job during the
				// back-off; after the delay no retry may be created for the deleting Job
				settle()
				do(jsOp{Kind: "sync"})
				do(jsOp{Kind: "kubelet", Name: p0, Step: "schedule"})
				do(jsOp{Kind: "kubelet", Name: p0, Step: "run"})
				do(jsOp{Kind: "kubelet", Name: p0, Step: "fail"})
				settle()
				do(jsOp{Kind: "sync"})
				do(jsOp{Kind: "kubelet", Name: p0, Step: "vanish"})
				settle()
				do(jsOp{Kind: "sync"})
				do(jsOp{Kind: "delete"})
				do(jsOp{Kind: "clock", T: im.api.now() + 120})
				settle()
				do(jsOp{Kind: "sync"})
				settle()
				do(jsOp{Kind: "sync"})
			case "F16-foreign-pod-bound-by-name":
				settle()
				do(jsOp{Kind: "sync"})
				settle()
				do(jsOp{Kind: "kubelet", Name: p0, Step: "vanish"})
				settle()
				do(jsOp{Kind: "sync"})
				do(jsOp{Kind: "clock", T: now + 10})
				do(jsOp{Kind: "foreign", Hash: h0, Retry: 0})
				settle()
				do(jsOp{Kind: "sync"})
			case "F17-stale-job-cache-recreates-attempt":
				settle()
				do(jsOp{Kind: "sync"}) // creates retry 0 and records it; the Job cache is not advanced
				do(jsOp{Kind: "advpods", N: 1000})
				do(jsOp{Kind: "kubelet", Name: p0, Step: "schedule"})
				do(jsOp{Kind: "kubelet", Name: p0, Step: "run"})
				do(jsOp{Kind: "kubelet", Name: p0, Step: "fail"})
				do(jsOp{Kind: "kubelet", Name: p0, Step: "vanish"})
				do(jsOp{Kind: "advpods", N: 1000})
				do(jsOp{Kind: "sync"}) // stale Job cache: no tasks recorded => creates retry 0 again
			}
		} else {
			if !c.Chance(1, 10) {
				do(jsOp{Kind: "start"})
			}
			if c.Chance(1, 5) {
				// objects that already occupy task names before the Job creates its tasks
				for f := 0; f < 1+c.Intn(2); f++ {
					do(jsOp{Kind: "foreign", Hash: Pick(c, m.Hashes), Retry: 0, SameName: c.Bool()})
				}
			}
			settle()
			do(jsOp{Kind: "sync"})
		}
		lag := c.Chance(1, 3)    // this history lets the caches lag
		faulty := c.Chance(1, 3) // this history injects faults
		for k := 0; k < nops; k++ {
			pods := im.api.listPods()
			if retryFocus && script == "" {
				// fail live Pods one at a time, let a fraction of the delay pass, reconcile
				switch c.Intn(5) {
				case 0, 1:
					var live []*corev1.Pod
					for _, pd := range pods {
						if podAlive(pd) && pd.DeletionTimestamp == nil {
							live = append(live, pd)
						}
					}
					if len(live) > 0 {
						pd := Pick(c, live)
						if !im.api.scheduled[pd.Name] {
							do(jsOp{Kind: "kubelet", Name: pd.Name, Step: "schedule"})
						}
						do(jsOp{Kind: "kubelet", Name: pd.Name, Step: "run"})
						do(jsOp{Kind: "kubelet", Name: pd.Name, Step: Pick(c, []string{"fail", "fail", "fail", "succeed"})})
					}
				case 2, 3:
					do(jsOp{Kind: "clock", T: im.api.now() + Pick(c, []int64{1, m.RetryDelay / 4, m.RetryDelay / 2, m.RetryDelay/2 + 1, m.RetryDelay - 1, m.RetryDelay})})
				}
				settle()
				do(jsOp{Kind: "sync"})
				continue
			}
			switch r := c.Intn(100); {
			case r < 30: // sync (usually with fresh caches)
				if !lag || c.Chance(2, 3) {
					settle()
				} else {
					if c.Bool() {
						do(jsOp{Kind: "advjob", N: 1 + c.Intn(2)})
					}
					if c.Bool() {
						do(jsOp{Kind: "advpods", N: 1 + c.Intn(3)})
					}
				}
				do(jsOp{Kind: "sync"})
			case r < 60: // kubelet progress
				if len(pods) == 0 {
					continue
				}
				pd := Pick(c, pods)
				step := ""
				switch {
				case pd.DeletionTimestamp != nil && c.Chance(2, 3):
					step = "terminate"
				case !im.api.scheduled[pd.Name]:
					step = "schedule"
				case pd.Status.Phase == corev1.PodPending || pd.Status.Phase == "":
					step = Pick(c, []string{"run", "run", "run", "fail"})
				case pd.Status.Phase == corev1.PodRunning:
					step = Pick(c, []string{"succeed", "succeed", "fail", "fail", "oom"})
				default:
					step = Pick(c, []string{"vanish", "terminate", "terminate"})
				}
				if c.Chance(1, 25) {
					step = "vanish"
				}
				do(jsOp{Kind: "kubelet", Name: pd.Name, Step: step})
			case r < 75: // time passes
				adv := Pick(c, []int64{1, 1, 2, 5, 19, 20, 21, 29, 30, 31, 59, 60, 61, 899, 900, 901, 3600})
				if m.RetryDelay > 0 && c.Chance(1, 3) {
					adv = m.RetryDelay + Pick(c, []int64{-1, 0, 1})
				}
				do(jsOp{Kind: "clock", T: im.api.now() + adv})
			case r < 80:
				if c.Bool() {
					do(jsOp{Kind: "advjob", N: 1 + c.Intn(3)})
				} else {
					do(jsOp{Kind: "advpods", N: 1 + c.Intn(4)})
				}
			case r < 84: // user kills the Job (the validating webhook refuses a change once the old value has passed)
				if rj := im.api.getJob(jobName); rj != nil && (rj.Spec.KillTimestamp == nil || rj.Spec.KillTimestamp.Unix() > im.api.now()) {
					do(jsOp{Kind: "kill", T: im.api.now() + Pick(c, []int64{-5, 0, 0, 1, 30, 600})})
				}
			case r < 87:
				do(jsOp{Kind: "delete"})
			case r < 89:
				if len(m.Hashes) > 0 {
					do(jsOp{Kind: "foreign", Hash: Pick(c, m.Hashes), Retry: int64(c.Intn(int(m.MaxAttempts))), SameName: c.Bool()})
					if c.Chance(1, 2) {
						// let the controller meet the occupant (admission error while other tasks may live), then kill
						settle()
						do(jsOp{Kind: "sync"})
						if rj := im.api.getJob(jobName); rj != nil && (rj.Spec.KillTimestamp == nil || rj.Spec.KillTimestamp.Unix() > im.api.now()) {
							do(jsOp{Kind: "kill", T: im.api.now() + Pick(c, []int64{0, 1})})
							do(jsOp{Kind: "clock", T: im.api.now() + 2})
						}
					}
				}
			case r < 93:
				if faulty {
					do(jsOp{Kind: "fault", Fault: Pick(c, []string{"create-pod", "create-pod", "create-pod-invalid", "delete-pod", "update-job", "update-status", "update-status", "delete-job"})})
				}
			default:
				if rj := im.api.getJob(jobName); rj != nil && rj.Status.StartTime.IsZero() {
					do(jsOp{Kind: "start"})
				}
			}
		}
		// drive to quiescence: caches fresh, kubelet terminates what is being deleted
		for k := 0; k < 6; k++ {
			settle()
			do(jsOp{Kind: "sync"})
			for _, pd := range im.api.listPods() {
				if pd.DeletionTimestamp != nil {
					do(jsOp{Kind: "kubelet", Name: pd.Name, Step: "terminate"})
				}
			}
		}
		opTerms := make([]string, len(ops))
		obTerms := make([]string, len(obs))
		nact := 0
		for k := range ops {
			opTerms[k] = ops[k].coq()
			obTerms[k] = obs[k].World
			nact += len(obs[k].Actions)
		}
		// the effective configuration (built-in defaults overridden by the generated values)
		eff, err := im.sc.Configs().Jobs()
		if err != nil {
			panic(err)
		}
		effCfg := jsCfg{Pending: eff.DefaultPendingTimeoutSeconds, Force: eff.ForceDeleteTaskTimeoutSeconds, TTL: eff.DefaultTTLSecondsAfterFinished}
		term := CApp("mkJS", effCfg.coq(), m.coq(), CZ(now), CList(opTerms), CList(obTerms))
		js := map[string]interface{}{"cfg": effCfg, "job": m, "now": now, "ops": ops, "obs": obs}
		res.Distribution["shape-"+m.Shape]++
		res.Distribution["actions"] += nact
		res.Add(term, js, fmt.Sprintf("%d|%d|%d", ctx.Seed, i, nact), nact > 2)
		jobSyncMonitor(res, m, effCfg, ops, obs, js)
	}
	return res
}
