package main

import (
	"fmt"
	"regexp"
	"sort"
	"strings"

	corev1 "k8s.io/api/core/v1"
	metav1 "k8s.io/apimachinery/pkg/apis/meta/v1"
	"k8s.io/apimachinery/pkg/util/validation/field"
	"k8s.io/utils/pointer"

	execution "github.com/furiko-io/furiko/apis/execution/v1alpha1"
	"github.com/furiko-io/furiko/pkg/execution/taskexecutor/podtaskexecutor"
	"github.com/furiko-io/furiko/pkg/execution/tasks"
	jobutil "github.com/furiko-io/furiko/pkg/execution/util/job"
	"github.com/furiko-io/furiko/pkg/execution/util/parallel"
	"github.com/furiko-io/furiko/pkg/execution/validation"
	"github.com/furiko-io/furiko/pkg/execution/variablecontext"
)

// Family "parallel" (C14): GenerateIndexes / HashIndex / GenerateTaskName /
// MakeVariablesFromTask / NewPod / ValidateParallelismSpec against Job/Index.v.

func init() {
	register(&Family{Name: "parallel", Run: runParallel, CheckModule: "Cases.ParallelCheck", CaseOK: "par_ok"})
}

type parSpec struct {
	Count  *int64              `json:"count,omitempty"`
	Keys   []string            `json:"keys,omitempty"`
	Matrix map[string][]string `json:"matrix,omitempty"`
}

var parWords = []string{"a", "b", "ab", "ba", "a-b", "x1", "1", "prod", "", "a"}

func genParSpec(c *PRNG) parSpec {
	var s parSpec
	kinds := c.Intn(10)
	withCount := kinds < 4 || kinds == 9
	withKeys := kinds >= 4 && kinds < 7
	withMatrix := kinds >= 7 && kinds < 9 || kinds == 9 && c.Bool()
	if c.Chance(1, 25) {
		withCount, withKeys, withMatrix = false, false, false
	}
	if withCount {
		s.Count = pointer.Int64(Pick(c, []int64{1, 2, 3, 5, 10, 58, 69, 70, 75, 0, -1, 120}))
	}
	if withKeys {
		n := 1 + c.Intn(5)
		for i := 0; i < n; i++ {
			s.Keys = append(s.Keys, Pick(c, parWords))
		}
		if c.Chance(1, 2) { // distinct, non-empty
			seen := map[string]bool{}
			var ks []string
			for _, k := range s.Keys {
				if k != "" && !seen[k] {
					seen[k] = true
					ks = append(ks, k)
				}
			}
			s.Keys = ks
		}
	}
	if withMatrix {
		s.Matrix = map[string][]string{}
		nk := 1 + c.Intn(3)
		for i := 0; i < nk; i++ {
			key := Pick(c, []string{"x", "y", "z", "os", "py-ver", "a_b", "Bad", "k k"})
			nv := 1 + c.Intn(3)
			if c.Chance(1, 10) {
				nv = 0
			}
			var vs []string
			for j := 0; j < nv; j++ {
				vs = append(vs, Pick(c, parWords))
			}
			if c.Chance(2, 3) {
				seen := map[string]bool{}
				var u []string
				for _, v := range vs {
					if v != "" && !seen[v] {
						seen[v] = true
						u = append(u, v)
					}
				}
				vs = u
				if len(vs) == 0 && !c.Chance(1, 6) {
					vs = []string{"v"}
				}
			}
			s.Matrix[key] = vs
		}
	}
	return s
}

func (s parSpec) obj() *execution.ParallelismSpec {
	return &execution.ParallelismSpec{WithCount: s.Count, WithKeys: s.Keys, WithMatrix: s.Matrix, CompletionStrategy: execution.AllSuccessful}
}

func sortedKeys(m map[string][]string) []string {
	var ks []string
	for k := range m {
		ks = append(ks, k)
	}
	sort.Strings(ks)
	return ks
}

func (s parSpec) coq() string {
	var mx []string
	for _, k := range sortedKeys(s.Matrix) {
		mx = append(mx, CPair(CStr(k), CListStr(s.Matrix[k])))
	}
	return CApp("mkPSpec", COptZ(s.Count), CListStr(s.Keys), CList(mx))
}

var matrixKeyRe = regexp.MustCompile(`^[a-z0-9_-]+$`)

func viewIndex(ix execution.ParallelIndex) string {
	switch {
	case ix.IndexNumber != nil:
		return CPair(CPair(CZ(*ix.IndexNumber), CStr("")), "[]")
	case len(ix.MatrixValues) > 0:
		var ks []string
		for k := range ix.MatrixValues {
			ks = append(ks, k)
		}
		sort.Strings(ks)
		var kv []string
		for _, k := range ks {
			kv = append(kv, CPair(CStr(k), CStr(ix.MatrixValues[k])))
		}
		return CPair(CPair(CZ(-2), CStr("")), CList(kv))
	default:
		return CPair(CPair(CZ(-1), CStr(ix.IndexKey)), "[]")
	}
}

func runParallel(ctx *RunCtx) *Result {
	res := NewResult()
	p := NewPRNG(ctx.Seed)
	v := validation.NewValidator(NewSimContext())
	for i := 0; i < ctx.N; i++ {
		c := p.Fork()
		s := genParSpec(c)
		spec := s.obj()
		errs := v.ValidateParallelismSpec(spec, field.NewPath("parallelism"))
		valid := len(errs) == 0
		keysOK := true
		for k := range s.Matrix {
			if !matrixKeyRe.MatchString(k) {
				keysOK = false
			}
		}
		// GenerateIndexes (may panic on specs that admission should have rejected)
		var indexes []execution.ParallelIndex
		panicked := false
		func() {
			defer func() {
				if r := recover(); r != nil {
					panicked = true
				}
			}()
			indexes = parallel.GenerateIndexes(spec)
		}()
		js := map[string]interface{}{"spec": s, "valid": valid, "panicked": panicked, "n": len(indexes)}
		hit := func(sig, what string) { res.Hits = append(res.Hits, MonitorHit{"C14", sig, what, js}) }
		ixTerm := "None"
		var varsTerms []string
		if !panicked {
			var it []string
			hashes := map[string]int{}
			names := map[string]int{}
			// every task of one Job is created from the same Job object, one after the other
			rj := &execution.Job{ObjectMeta: metav1.ObjectMeta{Namespace: "ns", Name: "j", UID: "u"}}
			var env []corev1.EnvVar
			env = append(env, corev1.EnvVar{Name: "NUM", Value: "${task.index_num}"}, corev1.EnvVar{Name: "KEY", Value: "${task.index_key}"})
			for _, k := range sortedKeys(s.Matrix) {
				env = append(env, corev1.EnvVar{Name: "M_" + k, Value: "${task.index_matrix." + k + "}"})
			}
			rj.Spec.Template = &execution.JobTemplate{Parallelism: spec, TaskTemplate: execution.TaskTemplate{Pod: &execution.PodTemplateSpec{
				Spec: corev1.PodSpec{Containers: []corev1.Container{{Name: "c", Image: "img", Env: env}}}}}}
			template := rj.Spec.Template.TaskTemplate.Pod.ConvertToCoreSpec()
			for n, ix := range indexes {
				it = append(it, viewIndex(ix))
				h, err := parallel.HashIndex(ix)
				if err != nil {
					panic(err)
				}
				if prev, ok := hashes[h]; ok && valid {
					sig := "C14/accepted-spec-with-colliding-index-hashes"
					if viewIndex(indexes[prev]) == viewIndex(ix) {
						sig = "C14/accepted-spec-with-identical-indexes"
					}
					hit(sig, fmt.Sprintf("indexes #%d and #%d of an accepted spec share the hash %s (one task name, one status slot)", prev, n, h))
				}
				hashes[h] = n
				name, _ := jobutil.GenerateTaskName("j", tasks.TaskIndex{Retry: 0, Parallel: ix})
				if name != "j-"+h+"-0" {
					hit("C14/task-name-not-from-hash", fmt.Sprintf("task name %q for hash %s", name, h))
				}
				names[name] = n
				vars := variablecontext.ContextProvider.MakeVariablesFromTask(variablecontext.TaskSpec{Name: name, Namespace: "ns", RetryIndex: 0, ParallelIndex: ix})
				var ks []string
				for k := range vars {
					if strings.HasPrefix(k, "task.index_") {
						ks = append(ks, k)
					}
				}
				sort.Strings(ks)
				var vt []string
				for _, k := range ks {
					vt = append(vt, CPair(CStr(k), CStr(vars[k])))
				}
				varsTerms = append(varsTerms, CList(vt))
				// the Pod created for this index must carry this index's values
				if n < 40 {
					pod, err := podtaskexecutor.NewPod(rj, template, tasks.TaskIndex{Retry: 0, Parallel: ix})
					if err != nil {
						panic(err)
					}
					for _, e := range pod.Spec.Containers[0].Env {
						want := ""
						switch {
						case e.Name == "NUM":
							want = vars["task.index_num"]
						case e.Name == "KEY":
							want = vars["task.index_key"]
						default:
							want = vars["task.index_matrix."+strings.TrimPrefix(e.Name, "M_")]
						}
						if e.Value != want {
							hit("C14/task-receives-other-index-values", fmt.Sprintf("Pod for index #%d: env %s=%q, this index's value is %q", n, e.Name, e.Value, want))
						}
					}
				}
			}
			ixTerm = "(Some " + CList(it) + ")"
		} else if valid {
			hit("C14/accepted-spec-panics-generate-indexes", "GenerateIndexes panics on a spec that ValidateParallelismSpec accepted")
		}
		term := CApp("mkPar", s.coq(), CBool(keysOK), CBool(valid), ixTerm, CList(varsTerms))
		res.Distribution[fmt.Sprintf("valid-%v", valid)]++
		if panicked {
			res.Count("panic")
		}
		res.Add(term, js, fmt.Sprintf("%v", s), len(indexes) > 1)
	}
	return res
}
