#!/bin/bash
# seed_cross.sh: selected seeds against other properties' checks (developer tool)
out=/verif/seeded/CROSS.txt; : > $out
run() { id=$1; shift; r=$(/verif/seed_test.sh $id "$@" 2>&1); echo "$r" | grep "^== " >> $out; }
run C05 C06 C07 C20
run C06 C05 C07 C20
run C07 C05 C06
run C20 C05 C06 C07
run C02 C04
run C10 C11
run C11 C10
git -C /repo status --short >> $out
