#!/bin/sh
# hr.sh <family> <seed> <n> : run a family into /root/scratch/hr_<family> and evaluate the model on the cases
fam=$1; seed=${2:-1}; n=${3:-100}
d=/root/scratch/hr_$fam; rm -rf $d; mkdir -p $d; cd $d
/verif/harness/bin/harness $fam -seed $seed -n $n -shard ${SHARD:-50} -out . 2>&1 | tail -3
python3 - <<PY
import json,collections
d=json.load(open('$fam.json'));print(d['distribution']);
d['hits']=d['hits'] or []
print('hits',collections.Counter(h['signature'] for h in d['hits']))
seen=set()
for h in d['hits']:
  if h['signature'] not in seen: seen.add(h['signature']); print(' ',h['signature'],h['what'][:300])
PY
for f in cases_${fam}_*.v; do (coqc -Q /verif/coq Furiko $f 2>&1 | tr '\n' ' ' | cut -c1-400; echo) & done; wait
